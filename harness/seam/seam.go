//go:build verif

// Package verifseam is a virtual package placed inside the qframe module by
// `go build -overlay` so that the harness can reach internal packages. It only
// re-exports; it contains no logic of its own.
package verifseam

import (
	"io"

	"github.com/tobgu/qframe/internal/column"
	"github.com/tobgu/qframe/internal/fastcsv"
	"github.com/tobgu/qframe/internal/grouper"
	"github.com/tobgu/qframe/internal/hash"
	"github.com/tobgu/qframe/internal/index"
	"github.com/tobgu/qframe/internal/ryu"
	qfsort "github.com/tobgu/qframe/internal/sort"
	qfstrings "github.com/tobgu/qframe/internal/strings"
)

type CompareResult = column.CompareResult

const (
	LessThan    = column.LessThan
	GreaterThan = column.GreaterThan
	Equal       = column.Equal
	NotEqual    = column.NotEqual
)

type Comparable = column.Comparable
type IndexInt = index.Int
type GroupStats = grouper.GroupStats

func GroupBy(ix []uint32, cmp []Comparable) ([][]uint32, GroupStats) {
	groups, stats := grouper.GroupBy(index.Int(ix), cmp)
	out := make([][]uint32, len(groups))
	for i, g := range groups {
		out[i] = []uint32(g)
	}
	return out, stats
}

func Distinct(ix []uint32, cmp []Comparable) []uint32 {
	return []uint32(grouper.Distinct(index.Int(ix), cmp))
}

func HashBytes(b []byte, seed uint64) uint64 { return hash.HashBytes(b, seed) }

func ToUpper(buf *[]byte, s string) string { return qfstrings.ToUpper(buf, s) }

type Matcher = qfstrings.Matcher

func NewMatcher(p string, caseSensitive bool) (Matcher, error) {
	return qfstrings.NewMatcher(p, caseSensitive)
}

func AppendQuotedString(buf []byte, s string) []byte { return qfstrings.AppendQuotedString(buf, s) }

func AppendFloat64f(b []byte, f float64) []byte { return ryu.AppendFloat64f(b, f) }

type CSVReader = fastcsv.Reader

func NewCSVReader(r io.Reader, delim byte) CSVReader { return fastcsv.NewReader(r, delim) }

// Sorting seam.
func SortFull(ix []uint32, cmp []Comparable) { qfsort.New(index.Int(ix), cmp).Sort() }

func SortQuickDepth(ix []uint32, cmp []Comparable, a, b, depth int) {
	qfsort.VerifQuickSort(qfsort.New(index.Int(ix), cmp), a, b, depth)
}

func SortHeap(ix []uint32, cmp []Comparable, a, b int) {
	qfsort.VerifHeapSort(qfsort.New(index.Int(ix), cmp), a, b)
}

func SortMaxDepth(n int) int { return qfsort.VerifMaxDepth(n) }

func NewCSVReaderCap(r io.Reader, delim byte, capacity int) CSVReader {
	return fastcsv.VerifNewReaderCap(r, delim, capacity)
}
