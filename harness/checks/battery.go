package checks

import (
	"bytes"
	"fmt"
	"sort"
	"strings"

	"github.com/tobgu/qframe"
	qcsv "github.com/tobgu/qframe/config/csv"
	"github.com/tobgu/qframe/config/groupby"
	"github.com/tobgu/qframe/types"

	"verif/harness/core"
	"verif/harness/model"
)

// Latent-state battery.
//
// A frame returned by the operation under test may look right to every direct observer and still carry
// internal state that is not what a freshly built frame with the same content carries (positions and names
// in the column bookkeeping, value tables of enum columns, the layout of string data, index capacity and
// aliasing, flags and caches remembered on the frame). The battery makes such state visible: it rebuilds
// the frame with New from its observed values (the twin) and runs the same probe programs (one or two
// ordinary public operations) on the frame and on the twin. Whatever the probes return must agree, no probe
// may panic, and the frame must be observed unchanged afterwards.
//
// decl: declared value lists of enum columns where the caller knows them (the twin is then declared the same
// way and order-sensitive probes on those columns are run); enum columns without an entry get a derived twin
// and only order-insensitive probes.

type probe struct {
	name string
	// run returns a digest of what the probe produced on q
	run func(q qframe.QFrame) string
}

func digestOrdered(q qframe.QFrame) string {
	if q.Err != nil {
		return "ERR"
	}
	o := model.Observe(q)
	if o.Err {
		return "ERR(observe): " + o.ErrText
	}
	return o.String() + fmt.Sprint(q.ColumnNames())
}

func digestRowSet(q qframe.QFrame) string {
	if q.Err != nil {
		return "ERR"
	}
	o := model.Observe(q)
	if o.Err {
		return "ERR(observe): " + o.ErrText
	}
	rows := make([]string, o.N)
	for r := range rows {
		rows[r] = rowKey(o, r)
	}
	sort.Strings(rows)
	return fmt.Sprint(o.Names(), rows)
}

func firstValue(c model.Col) (model.Cell, bool) {
	for _, cell := range c.Cells {
		if !(cell.Null) {
			return cell, true
		}
	}
	return model.Cell{}, false
}

func probeArg(k model.Kind, c model.Cell) interface{} {
	switch k {
	case model.Int:
		return c.I
	case model.Float:
		return c.F
	case model.Bool:
		return c.B
	}
	return c.S
}

// latentProbes builds the probe programs for a frame with the observed shape o.
func latentProbes(o model.Frame, decl map[string][]string) []probe {
	var ps []probe
	add := func(name string, run func(q qframe.QFrame) string) { ps = append(ps, probe{name, run}) }
	names := o.Names()
	rev := make([]string, len(names))
	for i, n := range names {
		rev[len(names)-1-i] = n
	}
	ordered := func(c model.Col) bool {
		if c.Kind != model.Enum {
			return true
		}
		_, ok := decl[c.Name]
		return ok
	}
	var numeric, ints, floats []string
	for _, c := range o.Cols {
		c := c
		n := c.Name
		if c.Kind == model.Int {
			ints = append(ints, n)
			numeric = append(numeric, n)
		}
		if c.Kind == model.Float {
			floats = append(floats, n)
			numeric = append(numeric, n)
		}
		if ordered(c) {
			add("Sort("+n+")", func(q qframe.QFrame) string { return digestOrdered(q.Sort(qframe.Order{Column: n})) })
			add("Sort("+n+" desc nulllast)", func(q qframe.QFrame) string {
				return digestOrdered(q.Sort(qframe.Order{Column: n, Reverse: true, NullLast: true}))
			})
		}
		if c.Kind != model.Int && c.Kind != model.Bool {
			add("Filter("+n+" isnull)", func(q qframe.QFrame) string {
				return digestOrdered(q.Filter(qframe.Filter{Column: n, Comparator: "isnull"}))
			})
			add("Filter(not "+n+" isnotnull)", func(q qframe.QFrame) string {
				return digestOrdered(q.Filter(qframe.Not(qframe.Filter{Column: n, Comparator: "isnotnull"})))
			})
		}
		// constants: the first value of the column; for declared enums every declared value
		var consts []interface{}
		if v, ok := firstValue(c); ok {
			consts = append(consts, probeArg(c.Kind, v))
		}
		if c.Kind == model.Enum {
			consts = nil
			if vals, ok := decl[n]; ok {
				for _, v := range vals {
					consts = append(consts, v)
				}
			} else if v, ok := firstValue(c); ok {
				consts = append(consts, v.S)
			}
		}
		for _, k := range consts {
			k := k
			cmps := []string{"=", "!="}
			if ordered(c) && c.Kind != model.Bool {
				cmps = append(cmps, "<", ">=")
			}
			for _, cmp := range cmps {
				cmp := cmp
				add(fmt.Sprintf("Filter(%s %s %v)", n, cmp, k), func(q qframe.QFrame) string {
					return digestOrdered(q.Filter(qframe.Filter{Column: n, Comparator: cmp, Arg: k}))
				})
			}
			if c.Kind == model.String || c.Kind == model.Enum {
				s := k.(string)
				add(fmt.Sprintf("Filter(%s in [%q])", n, s), func(q qframe.QFrame) string {
					return digestOrdered(q.Filter(qframe.Filter{Column: n, Comparator: "in", Arg: []string{s}}))
				})
				if !strings.ContainsAny(s, `%.*+?()[]{}|\^$`) {
					add(fmt.Sprintf("Filter(%s ilike %q)", n, s), func(q qframe.QFrame) string {
						return digestOrdered(q.Filter(qframe.Filter{Column: n, Comparator: "ilike", Arg: s}))
					})
				}
			}
		}
		add("Distinct("+n+")", func(q qframe.QFrame) string { return digestRowSet(q.Distinct(groupby.Columns(n)).Select(n)) })
		add("Distinct("+n+",null)", func(q qframe.QFrame) string {
			return digestRowSet(q.Distinct(groupby.Columns(n), groupby.Null(true)).Select(n))
		})
		add("GroupBy("+n+").count", func(q qframe.QFrame) string {
			return digestRowSet(q.GroupBy(groupby.Columns(n), groupby.Null(true)).Aggregate(qframe.Aggregation{Fn: "count", Column: n, As: "cnt~"}))
		})
		add("Drop("+n+")", func(q qframe.QFrame) string { return digestOrdered(q.Drop(n)) })
		add("Select("+n+")", func(q qframe.QFrame) string { return digestOrdered(q.Select(n)) })
		add("Apply(const->"+n+")", func(q qframe.QFrame) string { return digestOrdered(q.Apply(qframe.Instruction{Fn: 41, DstCol: n})) })
		add("Eval("+n+"=2.5)", func(q qframe.QFrame) string { return digestOrdered(q.Eval(n, qframe.Val(2.5))) })
		add("WithRowNums("+n+")", func(q qframe.QFrame) string { return digestOrdered(q.WithRowNums(n)) })
		for _, m := range names {
			m := m
			if m != n {
				add("Copy("+n+"<-"+m+")", func(q qframe.QFrame) string { return digestOrdered(q.Copy(n, m)) })
			}
		}
		if c.Kind == model.String || c.Kind == model.Enum {
			add("Apply(ToUpper "+n+") then filter/distinct/group", func(q qframe.QFrame) string {
				u := q.Apply(qframe.Instruction{Fn: "ToUpper", DstCol: n, SrcCol1: n})
				out := digestOrdered(u)
				if u.Err != nil {
					return out
				}
				uo := model.Observe(u)
				if uc, _, ok := uo.Col(n); ok {
					seen := map[string]bool{}
					for _, cell := range uc.Cells {
						if cell.Null || seen[cell.S] {
							continue
						}
						seen[cell.S] = true
						out += "|=" + digestOrdered(u.Filter(qframe.Filter{Column: n, Comparator: "=", Arg: cell.S}))
						out += "|!=" + digestOrdered(u.Filter(qframe.Filter{Column: n, Comparator: "!=", Arg: cell.S}))
					}
				}
				out += "|d" + digestRowSet(u.Distinct(groupby.Columns(n)).Select(n))
				out += "|g" + digestRowSet(u.GroupBy(groupby.Columns(n)).Aggregate(qframe.Aggregation{Fn: "count", Column: n, As: "cnt~"}))
				if c.Kind == model.String {
					out += "|s" + digestOrdered(u.Sort(qframe.Order{Column: n}))
				}
				return out
			})
			add("Apply(fn "+n+") then Sort/GroupBy", func(q qframe.QFrame) string {
				u := q.Apply(qframe.Instruction{Fn: func(s *string) *string {
					if s == nil || len(*s) == 0 {
						return s
					}
					r := (*s)[len(*s)-1:]
					return &r
				}, DstCol: n, SrcCol1: n})
				return digestOrdered(u) + "|" + digestOrdered(u.Sort(qframe.Order{Column: n})) + "|" + digestRowSet(u.GroupBy(groupby.Columns(n)).Aggregate(qframe.Aggregation{Fn: "count", Column: n, As: "cnt~"}))
			})
		}
		if c.Kind == model.Int {
			add("Apply("+n+"%2) then Sort/GroupBy/Distinct", func(q qframe.QFrame) string {
				u := q.Apply(qframe.Instruction{Fn: func(x int) int { return (x%3 + 3) % 2 }, DstCol: n, SrcCol1: n})
				return digestOrdered(u) + "|" + digestOrdered(u.Sort(qframe.Order{Column: n})) + "|" + digestRowSet(u.GroupBy(groupby.Columns(n)).Aggregate(qframe.Aggregation{Fn: "count", Column: n, As: "cnt~"})) +
					"|" + digestRowSet(u.Distinct(groupby.Columns(n)).Select(n))
			})
			add("Eval("+n+"="+n+"+"+n+") then projections", func(q qframe.QFrame) string {
				u := q.Eval(n, qframe.Expr("+", types.ColumnName(n), types.ColumnName(n)))
				out := digestOrdered(u) + "|" + digestOrdered(u.Select(rev...)) + "|" + digestOrdered(u.Drop(names[0]))
				for _, m := range names {
					if m != n {
						out += "|" + digestOrdered(u.Copy(n, m)) + "|" + digestOrdered(u.Copy(m, n))
						break
					}
				}
				return out + fmt.Sprint(u.Contains("colcol-temp-0"), u.Contains("unary-temp-0"), u.Contains("const-temp-0"), len(u.ColumnTypeMap()))
			})
		}
	}
	// int column against float column (one side is promoted), before and after an aggregation that keeps the names
	for _, ic := range ints {
		for _, fc := range floats {
			ic, fc := ic, fc
			add("Filter("+ic+" > col "+fc+"), the same after Aggregate", func(q qframe.QFrame) string {
				cl := qframe.Filter{Column: ic, Comparator: ">", Arg: types.ColumnName(fc)}
				out := digestOrdered(q.Filter(cl))
				g := q.GroupBy(groupby.Columns(names[0])).Aggregate(qframe.Aggregation{Fn: "max", Column: ic}, qframe.Aggregation{Fn: "min", Column: fc})
				if names[0] == ic || names[0] == fc {
					g = q.GroupBy().Aggregate(qframe.Aggregation{Fn: "max", Column: ic}, qframe.Aggregation{Fn: "min", Column: fc})
				}
				if g.Err != nil {
					return out + "|ERR"
				}
				gs := g.Sort(qframe.Order{Column: ic}, qframe.Order{Column: fc})
				return out + "|" + digestRowSet(gs.Filter(cl)) + "|" + digestRowSet(gs.Filter(qframe.Not(cl)))
			})
		}
	}
	_ = numeric
	// whole-frame probes
	add("Select(reversed)", func(q qframe.QFrame) string { return digestOrdered(q.Select(rev...)) })
	add("Distinct()", func(q qframe.QFrame) string { return digestRowSet(q.Distinct()) })
	add("Slice(1,n)", func(q qframe.QFrame) string {
		if q.Len() < 1 {
			return "short"
		}
		return digestOrdered(q.Slice(1, q.Len()))
	})
	add("Filter(Null)", func(q qframe.QFrame) string { return digestOrdered(q.Filter(qframe.Null())) })
	add("Copy(new~<-first)", func(q qframe.QFrame) string { return digestOrdered(q.Copy("new~", names[0])) })
	add("Apply(fn0->new~), WithRowNums(rn~)", func(q qframe.QFrame) string {
		return digestOrdered(q.Apply(qframe.Instruction{Fn: func() int { return 3 }, DstCol: "new~"})) + "|" + digestOrdered(q.WithRowNums("rn~")) + "|" +
			digestOrdered(q.Apply(qframe.Instruction{Fn: 1.5, DstCol: "new~"}))
	})
	add("Eval(new~ = expression with temporaries)", func(q qframe.QFrame) string {
		u := q.Eval("new~", qframe.Expr("+", qframe.Expr("+", 1, 2), 3))
		return digestOrdered(u) + fmt.Sprint(u.Contains("colcol-temp-0"), u.Contains("unary-temp-0"), u.Contains("const-temp-0"), len(u.ColumnTypeMap()), u.ColumnTypes())
	})
	add("ToCSV", func(q qframe.QFrame) string {
		var b bytes.Buffer
		err := q.ToCSV(&b)
		return fmt.Sprint(err != nil) + b.String()
	})
	add("ToCSV(Columns reversed)", func(q qframe.QFrame) string {
		var b bytes.Buffer
		err := q.ToCSV(&b, qcsv.Columns(rev))
		return fmt.Sprint(err != nil) + b.String()
	})
	add("ToJSON", func(q qframe.QFrame) string {
		var b bytes.Buffer
		err := q.ToJSON(&b)
		return fmt.Sprint(err != nil) + b.String()
	})
	add("String/ColumnTypes/ColumnTypeMap/Contains", func(q qframe.QFrame) string {
		tm := q.ColumnTypeMap()
		var keys []string
		for k, v := range tm {
			keys = append(keys, k+":"+string(v))
		}
		sort.Strings(keys)
		out := q.String() + fmt.Sprint(q.ColumnTypes(), keys, q.ColumnNames(), q.Len())
		for _, n := range append(append([]string{}, names...), "colcol-temp-0", "new~") {
			out += fmt.Sprint(q.Contains(n))
		}
		return out
	})
	add("views: Slice against ItemAt", func(q qframe.QFrame) string {
		a, b := model.Observe(q), model.ObserveSlices(q)
		if b.Err {
			return a.String()
		}
		return a.String() + "|" + b.String()
	})
	return ps
}

// latentBattery runs the probes on r and on its New-rebuilt twin.
func latentBattery(r qframe.QFrame, decl map[string][]string, what string) *core.Failure {
	if r.Err != nil {
		return nil
	}
	o := model.Observe(r)
	if o.Err || len(o.Cols) == 0 {
		return nil
	}
	meta := model.Frame{}
	for n, vals := range decl {
		if c, _, ok := o.Col(n); ok && c.Kind == model.Enum {
			meta.Cols = append(meta.Cols, model.Col{Name: n, Kind: model.Enum, EnumVals: vals})
		}
	}
	plain := o.Clone()
	o.AdoptMeta(meta)
	twin := model.Build(o)
	if twin.Err != nil && len(decl) > 0 {
		// the cells no longer fit the declaration the caller knows (e.g. after ToUpper): a derived twin
		o, decl, meta = plain, nil, model.Frame{}
		twin = model.Build(o)
	}
	if twin.Err != nil {
		return nil // the observed content cannot be handed to New at all
	}
	before := o.String()
	if eq, why := r.Equals(twin); !eq {
		return core.Failf("%s: the frame is not Equal to the frame rebuilt with New from its observed values (%s)\n frame: %s", what, why, o)
	}
	if eq, why := twin.Equals(r); !eq {
		return core.Failf("%s: the frame rebuilt with New from the observed values is not Equal to the frame (%s)\n frame: %s", what, why, o)
	}
	for _, p := range latentProbes(o, decl) {
		var dr, dt string
		if f := core.Guard(func() *core.Failure { dr = p.run(r); return nil }); f != nil {
			return core.Failf("%s: the follow-up %s on the returned frame: %s\n frame: %s", what, p.name, f.Msg, o)
		}
		if f := core.Guard(func() *core.Failure { dt = p.run(twin); return nil }); f != nil {
			continue // the probe is not applicable to a frame of this content (it panics on the freshly built twin as well)
		}
		if dr != dt {
			if len(dr) > 1500 {
				dr = dr[:1500] + "..."
			}
			if len(dt) > 1500 {
				dt = dt[:1500] + "..."
			}
			return core.Failf("%s: the follow-up %s gives another result on the returned frame than on a frame built with New from the same (observed) content: the returned frame carries state its content does not show\n frame: %s\n on the frame: %s\n on its twin:  %s", what, p.name, o, dr, dt)
		}
	}
	after := model.Observe(r)
	after.AdoptMeta(meta)
	if after.String() != before {
		return core.Failf("%s: the follow-up operations changed the frame they were applied to\n before: %s\n after:  %s", what, before, after)
	}
	return nil
}

// ---- model probes: follow-up operations whose result is known from the content alone ----

type modelProbe struct {
	name string
	run  func(q qframe.QFrame) qframe.QFrame
	want model.Frame
}

func replaceCol(o model.Frame, name string, nc model.Col) model.Frame {
	w := o.Clone()
	nc.Name = name
	if _, i, ok := w.Col(name); ok {
		w.Cols[i] = nc
	} else {
		w.Cols = append(w.Cols, nc)
	}
	return w
}

func constCol(k model.Kind, c model.Cell, n int) model.Col {
	col := model.Col{Kind: k, Cells: make([]model.Cell, n)}
	for i := range col.Cells {
		col.Cells[i] = c
	}
	return col
}

func bookkeepingProbes(o model.Frame) []modelProbe {
	var ps []modelProbe
	names := o.Names()
	rev := make([]string, len(names))
	for i, n := range names {
		rev[len(names)-1-i] = n
	}
	for _, c := range o.Cols {
		n := c.Name
		ps = append(ps, modelProbe{"Apply(const 41 -> " + n + ")", func(q qframe.QFrame) qframe.QFrame { return q.Apply(qframe.Instruction{Fn: 41, DstCol: n}) }, replaceCol(o, n, constCol(model.Int, model.I(41), o.N))})
		ps = append(ps, modelProbe{"Eval(" + n + " = 2.5)", func(q qframe.QFrame) qframe.QFrame { return q.Eval(n, qframe.Val(2.5)) }, replaceCol(o, n, constCol(model.Float, model.F(2.5), o.N))})
		ps = append(ps, modelProbe{"Eval(" + n + " = 1+2)", func(q qframe.QFrame) qframe.QFrame { return q.Eval(n, qframe.Expr("+", 1, 2)) }, replaceCol(o, n, constCol(model.Int, model.I(3), o.N))})
		rn := model.Col{Kind: model.Int}
		for i := 0; i < o.N; i++ {
			rn.Cells = append(rn.Cells, model.I(i))
		}
		ps = append(ps, modelProbe{"WithRowNums(" + n + ")", func(q qframe.QFrame) qframe.QFrame { return q.WithRowNums(n) }, replaceCol(o, n, rn)})
		var rest []model.Col
		for _, d := range o.Cols {
			if d.Name != n {
				rest = append(rest, d)
			}
		}
		if len(rest) > 0 {
			ps = append(ps, modelProbe{"Drop(" + n + ")", func(q qframe.QFrame) qframe.QFrame { return q.Drop(n) }, model.Frame{N: o.N, Cols: rest}})
		}
		ps = append(ps, modelProbe{"Select(" + n + ")", func(q qframe.QFrame) qframe.QFrame { return q.Select(n) }, model.Frame{N: o.N, Cols: []model.Col{c}}})
		for _, m := range o.Cols {
			m := m
			if m.Name != n {
				ps = append(ps, modelProbe{"Copy(" + n + " <- " + m.Name + ")", func(q qframe.QFrame) qframe.QFrame { return q.Copy(n, m.Name) }, replaceCol(o, n, m)})
			}
		}
	}
	w := model.Frame{N: o.N}
	for _, n := range rev {
		c, _, _ := o.Col(n)
		w.Cols = append(w.Cols, c)
	}
	ps = append(ps, modelProbe{"Select(reversed)", func(q qframe.QFrame) qframe.QFrame { return q.Select(rev...) }, w})
	ps = append(ps, modelProbe{"Copy(new~ <- " + names[0] + ")", func(q qframe.QFrame) qframe.QFrame { return q.Copy("new~", names[0]) }, replaceCol(o, "new~", o.Cols[0])})
	ps = append(ps, modelProbe{"Eval(new~ = (1+2)+3)", func(q qframe.QFrame) qframe.QFrame {
		return q.Eval("new~", qframe.Expr("+", qframe.Expr("+", 1, 2), 3))
	}, replaceCol(o, "new~", constCol(model.Int, model.I(6), o.N))})
	ps = append(ps, modelProbe{"Filter(Null)", func(q qframe.QFrame) qframe.QFrame { return q.Filter(qframe.Null()) }, o})
	if o.N >= 1 {
		ix := []int{}
		for i := 1; i < o.N; i++ {
			ix = append(ix, i)
		}
		ps = append(ps, modelProbe{"Slice(1,n)", func(q qframe.QFrame) qframe.QFrame { return q.Slice(1, q.Len()) }, o.Rows(ix)})
	}
	return ps
}

// bookkeepingBattery: column-list follow-ups (overwrite, add, drop, project) on r, compared with what the content
// of r says they must give. Independent of how a twin would be built.
func bookkeepingBattery(r qframe.QFrame, what string) *core.Failure {
	if r.Err != nil {
		return nil
	}
	o := model.Observe(r)
	if o.Err || len(o.Cols) == 0 {
		return nil
	}
	for _, n := range o.Names() {
		if !checkNameOK(n) {
			return nil
		}
	}
	seen := map[string]bool{}
	for _, n := range o.Names() {
		if seen[n] {
			return nil
		}
		seen[n] = true
	}
	for _, p := range bookkeepingProbes(o) {
		var got model.Frame
		if f := core.Guard(func() *core.Failure { got = model.Observe(p.run(r)); return nil }); f != nil {
			return core.Failf("%s: the follow-up %s on the returned frame: %s\n frame: %s", what, p.name, f.Msg, o)
		}
		if d := model.Diff(p.want, got); d != "" {
			return core.Failf("%s: the follow-up %s on the returned frame: %s\n frame: %s\n  want: %s\n   got: %s", what, p.name, d, o, p.want, got)
		}
	}
	if after := model.Observe(r); after.String() != o.String() {
		return core.Failf("%s: the follow-up operations changed the frame they were applied to\n before: %s\n after:  %s", what, o, after)
	}
	return nil
}

// latentDeep: the battery on r, and on frames derived from r by one further ordinary operation each (sorted,
// aggregated, upper-cased, overwritten, evaluated, filtered, projected): every derived frame is compared with a frame
// built with New from ITS observed content.
func latentDeep(r qframe.QFrame, decl map[string][]string, what string) *core.Failure {
	if f := latentBattery(r, decl, what); f != nil {
		return f
	}
	if f := bookkeepingBattery(r, what); f != nil {
		return f
	}
	if r.Err != nil {
		return nil
	}
	o := model.Observe(r)
	if o.Err || len(o.Cols) == 0 {
		return nil
	}
	type der struct {
		name string
		f    func() qframe.QFrame
		decl map[string][]string
	}
	var ds []der
	names := o.Names()
	for _, c := range o.Cols {
		c := c
		n := c.Name
		if _, isDecl := decl[n]; c.Kind != model.Enum || isDecl {
			ds = append(ds, der{"Sort(" + n + ")", func() qframe.QFrame { return r.Sort(qframe.Order{Column: n}) }, decl})
		}
		if c.Kind == model.String || c.Kind == model.Enum {
			ds = append(ds, der{"Apply(ToUpper " + n + ")", func() qframe.QFrame { return r.Apply(qframe.Instruction{Fn: "ToUpper", DstCol: n, SrcCol1: n}) }, nil})
		}
		if c.Kind == model.Int {
			ds = append(ds, der{"Eval(" + n + "=" + n + "+" + n + ")", func() qframe.QFrame { return r.Eval(n, qframe.Expr("+", types.ColumnName(n), types.ColumnName(n))) }, decl})
		}
		if v, ok := firstValue(c); ok {
			arg := probeArg(c.Kind, v)
			ds = append(ds, der{fmt.Sprintf("Filter(%s != %v)", n, arg), func() qframe.QFrame { return r.Filter(qframe.Filter{Column: n, Comparator: "!=", Arg: arg}) }, decl})
		}
		ds = append(ds, der{"GroupBy(" + n + ").Aggregate(every numeric column, count)", func() qframe.QFrame {
			var aggs []qframe.Aggregation
			for _, d := range o.Cols {
				if d.Name == n {
					continue
				}
				switch d.Kind {
				case model.Int:
					aggs = append(aggs, qframe.Aggregation{Fn: "max", Column: d.Name})
				case model.Float:
					aggs = append(aggs, qframe.Aggregation{Fn: "min", Column: d.Name})
				}
			}
			aggs = append(aggs, qframe.Aggregation{Fn: "count", Column: n, As: "cnt~"})
			return r.GroupBy(groupby.Columns(n), groupby.Null(true)).Aggregate(aggs...)
		}, decl})
	}
	ds = append(ds, der{"Distinct()", func() qframe.QFrame { return r.Distinct() }, decl})
	ds = append(ds, der{"Copy(" + names[0] + "2~ <- " + names[0] + ")", func() qframe.QFrame { return r.Copy(names[0]+"2~", names[0]) }, decl})
	if o.N > 1 {
		ds = append(ds, der{"Slice(0,n-1)", func() qframe.QFrame { return r.Slice(0, r.Len()-1) }, decl})
	}
	for _, d := range ds {
		var u qframe.QFrame
		if f := core.Guard(func() *core.Failure { u = d.f(); return nil }); f != nil {
			return core.Failf("%s: %s on the returned frame: %s", what, d.name, f.Msg)
		}
		if u.Err != nil {
			continue
		}
		w := what + ", then " + d.name
		if f := latentBattery(u, d.decl, w); f != nil {
			return f
		}
		if f := bookkeepingBattery(u, w); f != nil {
			return f
		}
	}
	return nil
}

// batteryFrame: a frame for the checks whose own inputs lack the ingredients latent state needs: five types in a
// column order that is not alphabetical, nulls, ties, an int and a float column to compare, enum and string values
// that differ in case only and all change under ToUpper (declared in a non-alphabetical order).
func batteryFrame() (model.Frame, map[string][]string) {
	N := model.Null()
	decl := []string{"cd", "aB", "ab", "Ab"}
	f := model.Frame{N: 6, Cols: []model.Col{
		{Name: "s", Kind: model.String, Cells: []model.Cell{model.S("aB"), model.S("Ab"), N, model.S("ab"), model.S("cd"), model.S("aB")}},
		{Name: "n", Kind: model.Int, Cells: []model.Cell{model.I(3), model.I(1), model.I(2), model.I(1), model.I(5), model.I(0)}},
		{Name: "e", Kind: model.Enum, EnumVals: decl, Cells: []model.Cell{model.S("Ab"), model.S("ab"), model.S("aB"), N, model.S("cd"), model.S("ab")}},
		{Name: "a", Kind: model.Float, Cells: []model.Cell{model.F(2.5), model.F(1), model.NaN(), model.F(0.5), model.F(7), model.F(-1)}},
		{Name: "b", Kind: model.Bool, Cells: []model.Cell{model.B(true), model.B(false), model.B(true), model.B(true), model.B(false), model.B(false)}},
	}}
	return f, map[string][]string{"e": decl}
}

// declOf: the declared value lists a model frame knows for its enum columns.
func declOf(f model.Frame) map[string][]string {
	d := map[string][]string{}
	for _, c := range f.Cols {
		if c.Kind == model.Enum && len(c.EnumVals) > 0 {
			d[c.Name] = c.EnumVals
		}
	}
	return d
}
