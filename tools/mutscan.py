#!/usr/bin/env python3
"""Development aid: syntactic mutation scan of /repo against the quick checks.

For every mutant of the given source files (tools/mutgen) that compiles and passes the repository's
own test suite, run the checks that are anchored in that file (quick tier, optionally with a per-check
time budget) and record which check, if any, reports a violation. /repo is never modified: the mutated
file is substituted with `go build/test -overlay`. Results are appended to mutation/results.jsonl.

usage: mutscan.py [--stream K/N] [--workers W] [--budget S] [--full] file...
"""
import json, os, re, subprocess, sys, time, hashlib

HERE = os.path.dirname(os.path.dirname(os.path.abspath(__file__)))
ENV = dict(os.environ, GOFLAGS="-mod=mod", GOPROXY="off", GOSUMDB="off", GOTOOLCHAIN="local")

FILE_CHECKS = {
    "filter.go": ["C02", "C10", "C18", "C01"],
    "filter/filter.go": ["C02", "C10"],
    "grouper.go": ["C04", "C10", "C01"],
    "expression.go": ["C07", "C10"],
    "config/eval/context.go": ["C07", "C10"],
    "config/eval/config.go": ["C07"],
    "config/csv/config.go": ["C13", "C17", "C12"],
    "config/groupby/config.go": ["C04", "C05"],
    "config/newqf/config.go": ["C08", "C17"],
    "config/sql/config.go": ["C19"],
    "function/bool.go": ["C06", "C07"], "function/float.go": ["C06", "C07"],
    "function/int.go": ["C06", "C07"], "function/string.go": ["C06", "C07"],
    "aggregation/strings.go": ["C04"],
    "internal/index/index.go": ["C01", "C02", "C08", "C09"],
    "internal/sort/sorter.go": ["C03", "C01"],
    "internal/grouper/grouper.go": ["C05", "C04"],
    "internal/hash/memhash.go": ["C05", "C04"],
    "internal/fastcsv/csv.go": ["C13", "C15", "C12"],
    "internal/io/csv.go": ["C13", "C17", "C15", "C12"],
    "internal/io/json.go": ["C14", "C15"],
    "internal/io/sql/coerce.go": ["C19"], "internal/io/sql/column.go": ["C19", "C15"],
    "internal/io/sql/reader.go": ["C19", "C15"], "internal/io/sql/stmt.go": ["C19"],
    "internal/io/sql/types.go": ["C19"],
    "internal/ryu/ryu.go": ["C16", "C14"], "internal/ryu/ryu64.go": ["C16", "C14"],
    "internal/strings/convert.go": ["C18", "C06", "C14", "C12"],
    "internal/strings/match.go": ["C18"],
    "internal/strings/name.go": ["C08"], "internal/strings/pointer.go": ["C08", "C09"],
    "internal/strings/serialize.go": ["C14", "C13"],
    "internal/template/column.go": [],
    "qerrors/error.go": ["C10"],
    "qframe_gen.go": ["C09", "C10"],
    "internal/math/float/float.go": ["C06", "C07"], "internal/math/integer/int.go": ["C06", "C07"],
    "internal/maps/maps.go": ["C08", "C12"],
    "internal/ncolumn/column.go": ["C08", "C10"],
    "types/types.go": ["C08", "C10"],
}
for t in "ifbse":
    d = "internal/%scolumn/" % t
    FILE_CHECKS[d + "column.go"] = ["C13", "C14", "C02", "C06", "C08", "C03", "C17", "C10", "C07", "C04", "C09"]
    FILE_CHECKS[d + "column_gen.go"] = ["C06", "C08", "C01", "C03", "C09"]
    FILE_CHECKS[d + "filters.go"] = ["C02", "C18", "C17", "C10"]
    FILE_CHECKS[d + "filters_gen.go"] = ["C02", "C17", "C10"]
    FILE_CHECKS[d + "aggregations.go"] = ["C04", "C07"]
    FILE_CHECKS[d + "view.go"] = ["C09", "C19"]
FILE_CHECKS["internal/ecolumn/bitset.go"] = ["C02", "C17"]

QFRAME_FUNCS = [
    (r"New|createColumn|newQFrame", ["C08", "C17", "C09"]),
    (r"\.Filter|\.filter", ["C02", "C10", "C01"]),
    (r"Equals", ["C09"]),
    (r"\.Sort", ["C03", "C01"]),
    (r"Select|Drop|Copy|Slice|WithRowNums|setColumn|withIndex", ["C08", "C06", "C01", "C09"]),
    (r"GroupBy|Distinct|checkColumns", ["C05", "C04", "C10"]),
    (r"Apply|apply", ["C06", "C10"]),
    (r"Eval", ["C07", "C10"]),
    (r"CSV", ["C13", "C17", "C15", "C12"]),
    (r"JSON", ["C14", "C15"]),
    (r"SQL", ["C19", "C15"]),
    (r"String|View|Len|Column|Contains|functionType|ByteSize", ["C09", "C08", "C10"]),
]
FALLBACK = ["C10", "C01"]


def checks_for(f, func):
    if f == "qframe.go":
        for rx, cs in QFRAME_FUNCS:
            if re.search(rx, func):
                return cs + [c for c in FALLBACK if c not in cs]
        return FALLBACK
    cs = FILE_CHECKS.get(f, [])
    return cs + [c for c in FALLBACK if c not in cs]


def run(cmd, cwd, timeout, env=None):
    import signal
    p = subprocess.Popen(cmd, cwd=cwd, env=env or ENV, stdout=subprocess.PIPE, stderr=subprocess.STDOUT, text=True, errors="replace", start_new_session=True)
    try:
        out, _ = p.communicate(timeout=timeout)
        return p.returncode, out
    except subprocess.TimeoutExpired:
        try:
            os.killpg(p.pid, signal.SIGKILL)
        except Exception:
            pass
        try:
            out, _ = p.communicate(timeout=30)
        except Exception:
            out = ""
        return -9, out or ""


def main():
    args = sys.argv[1:]
    stream, nstream, workers, budget, full = 0, 1, 16, 0, False
    files = []
    i = 0
    while i < len(args):
        a = args[i]
        if a == "--stream":
            stream, nstream = map(int, args[i + 1].split("/")); i += 2
        elif a == "--workers":
            workers = int(args[i + 1]); i += 2
        elif a == "--budget":
            budget = int(args[i + 1]); i += 2
        elif a == "--full":
            full = True; i += 1
        else:
            files.append(a); i += 1
    scratch = "/tmp/mutscan/s%d" % stream
    os.makedirs(scratch, exist_ok=True)
    os.makedirs(HERE + "/mutation", exist_ok=True)
    resfile = HERE + "/mutation/results.jsonl"
    done = set()
    if os.path.exists(resfile):
        for l in open(resfile):
            try:
                j = json.loads(l); done.add((j["file"], j["id"], j["sha"]))
            except Exception:
                pass
    mutgen = "/tmp/mutscan/mutgen"
    if not os.path.exists(mutgen):
        rc, out = run(["go", "build", "-o", mutgen, "."], HERE + "/tools/mutgen", 300)
        if rc != 0:
            print(out); sys.exit(2)
    count = 0
    for f in files:
        src = "/repo/" + f
        sha = hashlib.sha1(open(src, "rb").read()).hexdigest()[:10]
        rc, out = run([mutgen, "list", src], "/", 60)
        muts = [json.loads(l) for l in out.splitlines() if l.startswith("{")]
        for m in muts:
            count += 1
            if count % nstream != stream:
                continue
            if (f, m["id"], sha) in done:
                continue
            t0 = time.time()
            mf = scratch + "/" + os.path.basename(f)
            run([mutgen, "make", src, str(m["id"]), mf], "/", 60)
            ov = scratch + "/ov_repo.json"
            json.dump({"Replace": {src: mf}}, open(ov, "w"))
            rec = {"file": f, "id": m["id"], "sha": sha, "line": m["line"], "kind": m["kind"], "from": m["from"][:80], "to": m["to"], "func": m["func"]}

            def emit(status, **kw):
                rec["status"] = status
                rec.update(kw)
                rec["secs"] = round(time.time() - t0, 1)
                with open(resfile, "a") as fh:
                    fh.write(json.dumps(rec) + "\n")
                print(json.dumps(rec), flush=True)

            rc, out = run(["go", "build", "-overlay", ov, "./..."], "/repo", 300)
            if rc != 0:
                emit("nocompile"); continue
            rc, out = run(["go", "test", "-overlay", ov, "-vet=off", "-count=1", "-timeout", "90s", "./..."], "/repo", 400)
            if rc != 0:
                fails = [l for l in out.splitlines() if l.startswith("FAIL") and "\t" in l]
                if fails and all("internal/hash" in l for l in fails) and "internal/hash" not in f:
                    rc, out = run(["go", "test", "-overlay", ov, "-vet=off", "-count=1", "-timeout", "90s", "./..."], "/repo", 400)
            if rc != 0:
                emit("killed-by-suite"); continue
            extra = scratch + "/extra_overlay.txt"
            open(extra, "w").write(' "%s": "%s",\n' % (src, mf))
            binp = scratch + "/qfmc"
            rc, out = run([HERE + "/build.sh"], HERE, 900, dict(ENV, VERIF_BIN_DIR=scratch, VERIF_EXTRA_OVERLAY=extra))
            if rc != 0:
                emit("harness-nocompile", detail=out[-300:]); continue
            env = dict(ENV, VERIF_DIR=HERE, VERIF_NO_EVIDENCE="1", VERIF_WORKERS=str(workers), VERIF_FAILFAST="1")
            if budget > 0:
                env["VERIF_BUDGET_S"] = str(budget)
            killed, notes = None, []
            for c in checks_for(f, m["func"]):
                rc, out = run([binp, "run", c, "quick"], HERE, 900, env)
                if rc == 1 and "VIOLATION property=" in out:
                    killed = c
                    break
                if rc == -9:
                    killed = c + "(hang)"
                    break
                if rc != 0:
                    notes.append("%s exit=%d %s" % (c, rc, [l for l in out.splitlines() if "HARNESS" in l][:1]))
            if killed:
                emit("killed", by=killed, notes=notes)
            else:
                emit("SURVIVED", checks=checks_for(f, m["func"]), notes=notes, budget=budget)
    print("stream done", stream)


if __name__ == "__main__":
    main()
