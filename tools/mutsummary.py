#!/usr/bin/env python3
import json, collections, sys
c=collections.Counter(); by=collections.Counter(); perfile=collections.defaultdict(collections.Counter)
surv=[]
for l in open('/verif/mutation/results.jsonl'):
    j=json.loads(l); c[j['status']]+=1; perfile[j['file']][j['status']]+=1
    if j['status']=='killed': by[j['by']]+=1
    if j['status'] in ('SURVIVED','harness-nocompile') or (j['status']=='killed' and 'hang' in j.get('by','')): surv.append(j)
print(dict(c)); print(dict(by))
for f,cc in perfile.items(): print(' ',f, dict(cc))
flt = sys.argv[1] if len(sys.argv)>1 else ''
for j in surv:
    if flt in j['file']:
        print(j['status'][:4], j['file'], j['line'], j['kind'], repr(j['from'][:60]), '->', repr(j['to']), j['func'], j.get('notes') or '', j.get('by',''))
