package checks

import (
	"database/sql/driver"
	"encoding/json"
	"fmt"
	"math"
	"strings"

	"github.com/tobgu/qframe"
	"github.com/tobgu/qframe/config/groupby"
	"github.com/tobgu/qframe/config/newqf"
	qsql "github.com/tobgu/qframe/config/sql"

	"verif/harness/core"
	"verif/harness/model"
	"verif/harness/sqlmem"
)

// C19 — ToSQL writes each row as one INSERT; ReadSQL rebuilds the result set.

type toSQLCase struct {
	Kind     string      `json:"kind"` // tosql
	Frame    model.Frame `json:"frame"`
	Shape    int         `json:"shape"`
	Escape   string      `json:"escape,omitempty"` // "", `"`, "`"
	Incr     bool        `json:"incrementing,omitempty"`
	Table    string      `json:"table"`
	ReadBack bool        `json:"read_back,omitempty"`
	// Preset: the dialect option used instead of EscapeChar ("sqlite", "mysql", "postgres"); IncrFirst: Incrementing()
	// is given BEFORE the preset (the order of options must not matter)
	Preset    string `json:"preset,omitempty"`
	IncrFirst bool   `json:"incr_first,omitempty"`
	// Pre: the frame written is derived from the shaped frame first: "sort-upper" = Sort by the first column descending,
	// then the built-in ToUpper on every string column; "filtered-upper" = FilteredApply(ToUpper) for the rows of the
	// first half; "agg" = GroupBy(all columns).Aggregate(count As cnt~)
	Pre string `json:"pre,omitempty"`
}

func cellArg(k model.Kind, c model.Cell) driver.Value {
	switch k {
	case model.Int:
		return int64(c.I)
	case model.Float:
		return c.F
	case model.Bool:
		return c.B
	default:
		if c.Null {
			return nil
		}
		return c.S
	}
}

func argString(v driver.Value) string {
	switch t := v.(type) {
	case float64:
		if math.IsNaN(t) {
			return "float64(NaN)"
		}
		return fmt.Sprintf("float64(%x)", math.Float64bits(t))
	case nil:
		return "NULL"
	}
	return fmt.Sprintf("%T(%v)", v, v)
}

func runToSQLCase(c toSQLCase) *core.Failure {
	c.Frame.Fix()
	qf := model.BuildShape(c.Frame, c.Shape)
	in := model.ObserveAs(qf, c.Frame)
	if in.Err {
		return core.Failf("could not build frame: %s", in.ErrText)
	}
	if c.Pre != "" {
		var ups []qframe.Instruction
		for _, col := range in.Cols {
			if col.Kind == model.String {
				ups = append(ups, qframe.Instruction{Fn: "ToUpper", DstCol: col.Name, SrcCol1: col.Name})
			}
		}
		switch c.Pre {
		case "sort-upper":
			qf = qf.Sort(qframe.Order{Column: in.Cols[0].Name, Reverse: true}, qframe.Order{Column: in.Cols[len(in.Cols)-1].Name}).Apply(ups...)
		case "filtered-upper":
			qf = qf.WithRowNums("rn~").FilteredApply(qframe.Filter{Column: "rn~", Comparator: "<", Arg: (in.N + 1) / 2}, ups...).Drop("rn~")
		default:
			qf = qf.GroupBy(groupby.Columns(in.Names()...), groupby.Null(true)).Aggregate(qframe.Aggregation{Fn: "count", Column: in.Cols[0].Name, As: "cnt~"}).Sort(qframe.Order{Column: in.Cols[0].Name})
		}
		meta := in
		in = model.Observe(qf)
		if in.Err {
			return core.Failf("could not derive the %s frame: %s", c.Pre, in.ErrText)
		}
		in.AdoptMeta(meta)
	}
	st := sqlmem.NewStore()
	var opts []qsql.ConfigFunc
	opts = append(opts, qsql.Table(c.Table))
	var esc rune
	if c.Preset != "" {
		if c.Incr && c.IncrFirst {
			opts = append(opts, qsql.Incrementing())
		}
		switch c.Preset {
		case "sqlite":
			opts, esc = append(opts, qsql.SQLite()), '"'
		case "mysql":
			opts, esc = append(opts, qsql.MySQL()), '`'
		default:
			opts, esc = append(opts, qsql.Postgres()), '"'
			c.Incr = true
		}
		if c.Incr && !c.IncrFirst && c.Preset != "postgres" {
			opts = append(opts, qsql.Incrementing())
		}
		c.Escape = string(esc)
	} else {
		if c.Escape != "" {
			esc = rune(c.Escape[0])
			opts = append(opts, qsql.EscapeChar(esc))
		}
		if c.Incr {
			opts = append(opts, qsql.Incrementing())
		}
	}
	st.Escape = esc
	// a short history: an earlier ToSQL call in the same process with the same table and dialect but
	// other column names and order (statement text must not leak from one call to the next)
	{
		pst := sqlmem.NewStore()
		pdb := sqlmem.Open(pst)
		ptx, err := pdb.Begin()
		if err != nil {
			return core.Failf("begin: %v", err)
		}
		primer := qframe.New(map[string]interface{}{"second col": []int{1}, "c1": []string{"p"}}, newqf.ColumnOrder("second col", "c1"))
		if err := primer.ToSQL(ptx, opts...); err != nil {
			return core.Failf("primer ToSQL error: %v", err)
		}
		_ = ptx.Rollback()
		pdb.Close()
	}
	db := sqlmem.Open(st)
	defer db.Close()
	tx, err := db.Begin()
	if err != nil {
		return core.Failf("begin: %v", err)
	}
	defer tx.Rollback()
	if err := qf.ToSQL(tx, opts...); err != nil {
		return core.Failf("ToSQL error: %v (frame %s)", err, in)
	}
	desc := fmt.Sprintf("ToSQL(table=%q escape=%q incrementing=%v) frame %s shape %s", c.Table, c.Escape, c.Incr, in, model.ShapeNames[c.Shape])
	if len(st.Execs) != in.N {
		return core.Failf("%s: %d statements executed, want one per row (%d)", desc, len(st.Execs), in.N)
	}
	q := func(s string) string { return c.Escape + s + c.Escape }
	var cols, ph []string
	for i, name := range in.Names() {
		cols = append(cols, q(name))
		if c.Incr {
			ph = append(ph, fmt.Sprintf("$%d", i+1))
		} else {
			ph = append(ph, "?")
		}
	}
	wantText := "INSERT INTO " + q(c.Table) + " (" + strings.Join(cols, ",") + ") VALUES (" + strings.Join(ph, ",") + ");"
	for r, ex := range st.Execs {
		if ex.Query != wantText {
			return core.Failf("%s: statement %d is %q, want %q", desc, r, ex.Query, wantText)
		}
		if len(ex.Args) != len(in.Cols) {
			return core.Failf("%s: statement %d has %d arguments", desc, r, len(ex.Args))
		}
		for ci, col := range in.Cols {
			want := cellArg(col.Kind, col.Cells[r])
			if argString(ex.Args[ci]) != argString(want) {
				return core.Failf("%s: statement %d argument %d (%s) is %s, want %s", desc, r, ci, col.Name, argString(ex.Args[ci]), argString(want))
			}
		}
	}
	if !c.ReadBack {
		return nil
	}
	// round trip through the store
	back := model.Observe(qframe.ReadSQL(tx, qsql.Query("SELECT * FROM "+c.Table)))
	want := in.Clone()
	for ci := range want.Cols {
		if want.Cols[ci].Kind == model.Enum {
			want.Cols[ci].Kind = model.String
		}
	}
	if d := model.Diff(want, back); d != "" {
		return core.Failf("ReadSQL(ToSQL(frame)) differs: %s\n %s\n want: %s\n  got: %s", d, desc, want, back)
	}
	return nil
}

// ---- ReadSQL -------------------------------------------------------------------

type readSQLCase struct {
	Kind      string     `json:"kind"` // readsql
	Cols      []string   `json:"cols"`
	ColKinds  []string   `json:"col_kinds"`        // int float bool string bytes
	Rows      [][]string `json:"rows"`             // cell texts, "NULL" = null
	Coerce    []string   `json:"coerce,omitempty"` // per column: "", int64tobool, stringtofloat
	Precision int        `json:"precision,omitempty"`
}

func sqlValue(kind, text string) driver.Value {
	if text == "NULL" {
		return nil
	}
	switch kind {
	case "int":
		var v int64
		fmt.Sscan(text, &v)
		return v
	case "float":
		var v float64
		fmt.Sscan(text, &v)
		return v
	case "bool":
		return text == "true"
	case "bytes":
		return []byte(text)
	}
	return text
}

func fixedModel(f float64, prec int) float64 {
	if prec <= 0 {
		return f
	}
	p := math.Pow(10, float64(prec))
	n := f * p
	return float64(int(n+math.Copysign(0.5, n))) / p
}

func runReadSQLCase(c readSQLCase) *core.Failure {
	st := sqlmem.NewStore()
	st.ResultCols = c.Cols
	for _, r := range c.Rows {
		row := make([]driver.Value, len(r))
		for i, t := range r {
			row[i] = sqlValue(c.ColKinds[i], t)
		}
		st.ResultRows = append(st.ResultRows, row)
	}
	opts := []qsql.ConfigFunc{qsql.Query("SELECT x")}
	var pairs []qsql.CoercePair
	for i, co := range c.Coerce {
		switch co {
		case "int64tobool":
			pairs = append(pairs, qsql.CoercePair{Column: c.Cols[i], Type: qsql.Int64ToBool})
		case "stringtofloat":
			pairs = append(pairs, qsql.CoercePair{Column: c.Cols[i], Type: qsql.StringToFloat})
		}
	}
	if len(pairs) > 0 {
		opts = append(opts, qsql.Coerce(pairs...))
	}
	if c.Precision > 0 {
		opts = append(opts, qsql.Precision(c.Precision))
	}
	db := sqlmem.Open(st)
	defer db.Close()
	tx, err := db.Begin()
	if err != nil {
		return core.Failf("begin: %v", err)
	}
	defer tx.Rollback()
	first := qframe.ReadSQL(tx, opts...)
	got := model.Observe(first)
	// expected
	want := model.Frame{N: len(c.Rows)}
	for i, name := range c.Cols {
		co := ""
		if i < len(c.Coerce) {
			co = c.Coerce[i]
		}
		col := model.Col{Name: name}
		for _, r := range c.Rows {
			t := r[i]
			switch {
			case co == "int64tobool":
				col.Kind = model.Bool
				col.Cells = append(col.Cells, model.B(t != "0"))
			case co == "stringtofloat":
				col.Kind = model.Float
				if t == "NULL" {
					col.Cells = append(col.Cells, model.NaN())
				} else {
					var v float64
					fmt.Sscan(t, &v)
					col.Cells = append(col.Cells, model.F(fixedModel(v, c.Precision)))
				}
			case c.ColKinds[i] == "int":
				col.Kind = model.Int
				var v int
				fmt.Sscan(t, &v)
				col.Cells = append(col.Cells, model.I(v))
			case c.ColKinds[i] == "float":
				col.Kind = model.Float
				if t == "NULL" {
					col.Cells = append(col.Cells, model.NaN())
				} else {
					var v float64
					fmt.Sscan(t, &v)
					col.Cells = append(col.Cells, model.F(fixedModel(v, c.Precision)))
				}
			case c.ColKinds[i] == "bool":
				col.Kind = model.Bool
				col.Cells = append(col.Cells, model.B(t == "true"))
			default:
				col.Kind = model.String
				if t == "NULL" {
					col.Cells = append(col.Cells, model.Null())
				} else {
					col.Cells = append(col.Cells, model.S(t))
				}
			}
		}
		want.Cols = append(want.Cols, col)
	}
	if d := model.Diff(want, got); d != "" {
		return core.Failf("ReadSQL(cols=%v kinds=%v rows=%v coerce=%v precision=%d): %s\n want: %s\n  got: %s", c.Cols, c.ColKinds, c.Rows, c.Coerce, c.Precision, d, want, got)
	}
	// latent state: follow-up operations on the frame ReadSQL returned (battery.go)
	if !got.Err && len(c.Rows) <= 2 && c.Precision == 0 {
		what := fmt.Sprintf("the frame returned by ReadSQL(cols=%v kinds=%v rows=%v coerce=%v)", c.Cols, c.ColKinds, c.Rows, c.Coerce)
		if f := latentBattery(first, nil, what); f != nil {
			return f
		}
		if f := bookkeepingBattery(first, what); f != nil {
			return f
		}
	}
	// a second read of a result set of the same shape (the rows in reverse order, the first row once more): the frame
	// returned by the first read is a value of its own and must not change
	if !got.Err && len(st.ResultRows) > 0 {
		var rev [][]driver.Value
		for i := len(st.ResultRows) - 1; i >= 0; i-- {
			rev = append(rev, st.ResultRows[i])
		}
		rev = append(rev, st.ResultRows[0])
		st.ResultRows = rev
		second := qframe.ReadSQL(tx, opts...)
		if second.Err == nil && second.Len() != len(rev) {
			return core.Failf("second ReadSQL of %d rows returned %d rows", len(rev), second.Len())
		}
		if again := model.Observe(first); again.String() != got.String() {
			return core.Failf("ReadSQL(cols=%v kinds=%v rows=%v coerce=%v): the frame returned by the first read changed when a second result set of the same shape was read:\n before: %s\n  after: %s", c.Cols, c.ColKinds, c.Rows, c.Coerce, got, again)
		}
	}
	return nil
}

func c19Run(ctx *core.Ctx) {
	// ---- ToSQL
	N := model.Null()
	alph := map[model.Kind][]model.Cell{
		model.Int:    {model.I(0), model.I(-5), model.I(math.MaxInt64)},
		model.Float:  {model.F(1.5), model.NaN(), model.F(math.Copysign(0, -1))},
		model.Bool:   {model.B(true), model.B(false)},
		model.String: {model.S("a"), N, model.S("")},
		model.Enum:   {model.S("hi"), N, model.S("lo")},
	}
	kinds := []model.Kind{model.Int, model.Float, model.Bool, model.String, model.Enum}
	execT := func(c toSQLCase) {
		ctx.Exec(c, func() *core.Failure { return runToSQLCase(c) })
		ctx.Outcome("tosql")
		ctx.Nontrivial(fmt.Sprintf("%s|%d|%s|%v|%s|%v|%s", c.Frame.String(), c.Shape, c.Escape, c.Incr, c.Table, c.ReadBack, c.Pre))
		if ctx.WantSample() && ctx.Index()%1501 == 5 {
			ctx.Sample(c)
		}
	}
	for _, k1 := range kinds {
		for _, k2 := range kinds {
			for n := 1; n <= 3; n++ {
				a1, a2 := alph[k1], alph[k2]
				forEachSeq(n, len(a1)*len(a2), func(seq []int) {
					c1 := model.Col{Name: "c1", Kind: k1, Cells: make([]model.Cell, n)}
					c2 := model.Col{Name: "second col", Kind: k2, Cells: make([]model.Cell, n)}
					if k1 == model.Enum {
						c1.EnumVals = []string{"lo", "hi"}
					}
					if k2 == model.Enum {
						c2.EnumVals = []string{"lo", "hi"}
					}
					allNull1, allNull2 := true, true
					for i, v := range seq {
						c1.Cells[i] = a1[v/len(a2)]
						c2.Cells[i] = a2[v%len(a2)]
						allNull1 = allNull1 && c1.Cells[i].Null
						allNull2 = allNull2 && c2.Cells[i].Null
					}
					strk := func(k model.Kind) bool { return k == model.String || k == model.Enum }
					if (strk(k1) && allNull1) || (strk(k2) && allNull2) {
						return // string columns entirely null are outside the property
					}
					f := model.Frame{N: n, Cols: []model.Col{c1, c2}}
					for _, esc := range []string{"", `"`, "`"} {
						for _, incr := range []bool{false, true} {
							for _, table := range []string{"t", "my table"} {
								if !ctx.Mine() {
									continue
								}
								shape := int(ctx.Index() % int64(model.NShapes))
								// reading back needs an escape character when names contain blanks (the store splits on it)
								rb := esc != ""
								execT(toSQLCase{Kind: "tosql", Frame: f, Shape: shape, Escape: esc, Incr: incr, Table: table, ReadBack: rb})
							}
						}
					}
				})
			}
		}
	}
	// ---- derived frames: sorted and then upper-cased, upper-cased for some rows only, aggregated with As; strings of
	// different lengths (the layout of the string data no longer follows the row order)
	for _, pre := range []string{"sort-upper", "filtered-upper", "agg"} {
		for n := 2; n <= 5; n++ {
			for shape := 0; shape < model.NShapes; shape++ {
				if !ctx.Mine() {
					continue
				}
				id := model.Col{Name: "id", Kind: model.Int}
				sc := model.Col{Name: "name", Kind: model.String}
				s2 := model.Col{Name: "s2", Kind: model.String}
				for r := 0; r < n; r++ {
					id.Cells = append(id.Cells, model.I((r*3)%n))
					sc.Cells = append(sc.Cells, model.S(strings.Repeat(string(rune('a'+r)), 1+(r*5)%7)))
					if r == 1 {
						s2.Cells = append(s2.Cells, model.Null())
					} else {
						s2.Cells = append(s2.Cells, model.S(strings.Repeat("xy", n-r)))
					}
				}
				f := model.Frame{N: n, Cols: []model.Col{id, sc, s2}}
				execT(toSQLCase{Kind: "tosql", Frame: f, Shape: shape, Escape: `"`, Table: "t", ReadBack: true, Pre: pre})
			}
		}
	}
	// ---- sizes: 63..200 rows (every row must be its own INSERT carrying that row's values)
	for _, n := range []int{63, 64, 65, 128, 129, 200} {
		id := model.Col{Name: "id", Kind: model.Int}
		sc := model.Col{Name: "s", Kind: model.String}
		fc := model.Col{Name: "f", Kind: model.Float}
		bc := model.Col{Name: "b", Kind: model.Bool}
		for r := 0; r < n; r++ {
			id.Cells = append(id.Cells, model.I(r))
			if r%7 == 5 {
				sc.Cells = append(sc.Cells, model.Null())
			} else {
				sc.Cells = append(sc.Cells, model.S(fmt.Sprintf("row-%03d", r)))
			}
			fc.Cells = append(fc.Cells, model.F(float64(r)+0.5))
			bc.Cells = append(bc.Cells, model.B(r%3 == 0))
		}
		f := model.Frame{N: n, Cols: []model.Col{id, sc, fc, bc}}
		for shape := 0; shape < model.NShapes; shape++ {
			for _, incr := range []bool{false, true} {
				if ctx.Mine() {
					execT(toSQLCase{Kind: "tosql", Frame: f, Shape: shape, Escape: `"`, Incr: incr, Table: "t", ReadBack: true})
				}
			}
		}
	}
	// ---- dialect presets, with Incrementing() before and after them
	for _, preset := range []string{"sqlite", "mysql", "postgres"} {
		for _, incr := range []bool{false, true} {
			for _, first := range []bool{false, true} {
				if !ctx.Mine() {
					continue
				}
				f := model.Frame{N: 2, Cols: []model.Col{
					{Name: "A", Kind: model.Int, Cells: []model.Cell{model.I(1), model.I(2)}},
					{Name: "B", Kind: model.String, Cells: []model.Cell{model.S("x"), model.Null()}},
				}}
				execT(toSQLCase{Kind: "tosql", Frame: f, Shape: int(ctx.Index() % int64(model.NShapes)), Incr: incr, Table: "t", ReadBack: true, Preset: preset, IncrFirst: first})
			}
		}
	}
	// ---- widths: 9..20 columns (two-digit placeholder numbers when Incrementing)
	for _, nc := range []int{9, 10, 11, 12, 16, 17, 20} {
		f := model.Frame{N: 2}
		for ci := 0; ci < nc; ci++ {
			f.Cols = append(f.Cols, model.Col{Name: fmt.Sprintf("c%02d", ci), Kind: model.Int, Cells: []model.Cell{model.I(ci), model.I(-100 - ci)}})
		}
		for _, esc := range []string{"", `"`} {
			for _, incr := range []bool{false, true} {
				if ctx.Mine() {
					execT(toSQLCase{Kind: "tosql", Frame: f, Shape: int(ctx.Index() % int64(model.NShapes)), Escape: esc, Incr: incr, Table: "t", ReadBack: esc != ""})
				}
			}
		}
	}
	// ---- names: table and column names with characters that mean something to printf, SQL or the escaping
	nameAlpha := []string{"a", "growth%", "100%done", "%s", "%d%%", "%!v", "a'b", "semi;colon", "x,y", "(p)", "?", "\u00fcn\u00ef", "a.b", "-- c"}
	for _, table := range nameAlpha {
		for _, n1 := range nameAlpha {
			for _, n2 := range []string{"z", "%v", "%[1]s"} {
				for _, esc := range []string{"", `"`, "`"} {
					if !ctx.Mine() {
						continue
					}
					f := model.Frame{N: 2, Cols: []model.Col{
						{Name: n1, Kind: model.Int, Cells: []model.Cell{model.I(1), model.I(-2)}},
						{Name: n2, Kind: model.String, Cells: []model.Cell{model.S("%s"), model.Null()}},
					}}
					execT(toSQLCase{Kind: "tosql", Frame: f, Shape: int(ctx.Index() % int64(model.NShapes)), Escape: esc, Table: table})
				}
			}
		}
	}
	// ---- ReadSQL: all result sets with <= 3 columns and <= 4 rows (quick: <= 2 columns, <= 3 rows; 3 columns with 2 rows)
	execR := func(c readSQLCase) {
		ctx.Exec(c, func() *core.Failure { return runReadSQLCase(c) })
		ctx.Outcome("readsql")
		ctx.Nontrivial(fmt.Sprintf("%+v", c))
		if ctx.WantSample() && ctx.Index()%1501 == 9 {
			ctx.Sample(c)
		}
	}
	type colAlt struct {
		kind   string
		values []string
		coerce string
	}
	alts := []colAlt{
		{"int", []string{"0", "7"}, ""},
		{"int", []string{"0", "7"}, "int64tobool"},
		{"float", []string{"1.25", "NULL", "-0.126"}, ""},
		{"bool", []string{"true", "false"}, ""},
		{"string", []string{"a", "NULL", ""}, ""},
		{"bytes", []string{"b", "NULL", "cc"}, ""},
		{"string", []string{"1.5", "NULL", "2.126"}, "stringtofloat"},
	}
	names := []string{"z", "b c", "a"} // deliberately not in alphabetical order
	maxRows, maxCols := 3, 2
	if !ctx.Quick() {
		maxRows, maxCols = 4, 3
	}
	var rec func(cols []colAlt)
	rec = func(cols []colAlt) {
		if len(cols) > 0 {
			for nr := 1; nr <= maxRows; nr++ {
				if len(cols) == 3 && nr > 3 {
					continue
				}
				total := 1
				for _, c := range cols {
					total *= len(c.values)
				}
				perRow := total
				_ = perRow
				// enumerate all cell assignments: each column independently over nr rows
				idx := make([]int, len(cols)*nr)
				for {
					if ctx.Mine() {
						rc := readSQLCase{Kind: "readsql"}
						skip := false
						for ci, c := range cols {
							rc.Cols = append(rc.Cols, names[ci])
							rc.ColKinds = append(rc.ColKinds, c.kind)
							rc.Coerce = append(rc.Coerce, c.coerce)
							allNull := true
							for r := 0; r < nr; r++ {
								if c.values[idx[ci*nr+r]] != "NULL" {
									allNull = false
								}
							}
							if allNull {
								skip = true // a column of NULLs only has no type
							}
						}
						if !skip {
							for r := 0; r < nr; r++ {
								row := make([]string, len(cols))
								for ci, c := range cols {
									row[ci] = c.values[idx[ci*nr+r]]
								}
								rc.Rows = append(rc.Rows, row)
							}
							for _, prec := range []int{0, 4, 2, 1} { // (a larger precision before a smaller one, in the same process)
								rc.Precision = prec
								execR(rc)
							}
						}
					}
					j := len(idx) - 1
					for j >= 0 {
						idx[j]++
						if idx[j] < len(cols[j/nr].values) {
							break
						}
						idx[j] = 0
						j--
					}
					if j < 0 {
						break
					}
				}
			}
		}
		if len(cols) == maxCols {
			return
		}
		for _, a := range alts {
			rec(append(append([]colAlt(nil), cols...), a))
		}
	}
	rec(nil)
	// result-set column names that look alike (case twins, names that look like a de-duplicated other name,
	// blanks at the ends, printf verbs): two and three columns, every ordered selection
	nameAlphaR := []string{"id", "ID", "Id", "id_2", "ID_2", "id2", "id_1", " id", "id ", "i d", "%d", "%s"}
	for i1, n1 := range nameAlphaR {
		for i2, n2 := range nameAlphaR {
			if i1 == i2 {
				continue
			}
			if ctx.Mine() {
				execR(readSQLCase{Kind: "readsql", Cols: []string{n1, n2}, ColKinds: []string{"int", "string"}, Coerce: []string{"", ""}, Rows: [][]string{{"1", "a"}, {"2", "NULL"}}})
			}
			for i3, n3 := range nameAlphaR[:6] {
				if i3 == i1 || i3 == i2 || !ctx.Mine() {
					continue
				}
				execR(readSQLCase{Kind: "readsql", Cols: []string{n1, n2, n3}, ColKinds: []string{"int", "string", "float"}, Coerce: []string{"", "", ""}, Rows: [][]string{{"1", "a", "0.5"}, {"2", "NULL", "1.5"}}})
			}
		}
	}
}

func init() {
	core.Register(&core.Check{
		ID:    "C19",
		Level: "model_checking",
		Rule: "ToSQL: every two-column frame over all 25 type pairs with 1-3 rows over per-type alphabets (nulls, NaN, -0, MaxInt64; string/enum columns not entirely null) x {no escape, \", `} x {?, $n} x {t, \"my table\"} x rotating index shape, against a recording in-memory database/sql driver, each preceded in the same process by a ToSQL call with the same table/dialect but other column names: exactly one INSERT per row in frame order with the specified text and the row's cells as arguments; with an escape character the rows are read back through ReadSQL from the store (enum columns return as strings). " +
			"ReadSQL: every result set of 1-2 (thorough 3) columns drawn from 7 column alternatives (int64, int64+Int64ToBool, float64 with NULL, bool, text with NULL, []byte with NULL, text+StringToFloat with NULL) and 1-3 (4) rows with every cell assignment (NULL in every position incl. leading), Precision 0, 4, 2, 1 (in that order). All cases non-trivial; distinct by content.",
		Assumptions: []string{
			"the harness driver (sqlmem) returns rows in insertion order with the stored column names and records statement texts/arguments as database/sql hands them over",
			"columns are homogeneous; a column consisting of NULLs only is outside the property",
		},
		Bound: map[string]string{
			"quick":    "ToSQL complete; ReadSQL <= 2 columns x <= 3 rows",
			"thorough": "ReadSQL <= 3 columns (3 columns with <= 3 rows), <= 4 rows",
		},
		Run: c19Run,
		Replay: func(raw json.RawMessage) *core.Failure {
			var k struct {
				Kind string `json:"kind"`
			}
			_ = json.Unmarshal(raw, &k)
			if k.Kind == "readsql" {
				return replayAs(runReadSQLCase)(raw)
			}
			return replayAs(runToSQLCase)(raw)
		},
	})
}
