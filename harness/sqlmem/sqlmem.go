// Package sqlmem is a recording, fault-injecting in-memory database/sql driver
// owned by the harness. A Store is addressed by its DSN name.
package sqlmem

import (
	"context"
	"database/sql"
	"database/sql/driver"
	"errors"
	"fmt"
	"io"
	"strings"
)

var ErrInjected = errors.New("injected driver fault")

type Exec struct {
	Query string
	Args  []driver.Value
}

type Table struct {
	Cols []string
	Rows [][]driver.Value
}

// Store holds the data, the recorded statements and the fault plan.
type Store struct {
	// ResultCols/ResultRows: the result set returned by any query that is not a "SELECT * FROM <table>" on a stored table.
	ResultCols []string
	ResultRows [][]driver.Value

	Tables map[string]*Table
	Execs  []Exec
	Trace  []string

	// faults (-1 / false = none)
	FailPrepare bool
	FailQuery   bool
	FailColumns bool
	FailNextAt  int // Rows.Next call number (0-based) that returns the error
	FailExecAt  int // Exec call number (0-based) that returns the error
	FailBegin   bool

	// Delivered is set when an injected fault was actually returned to the caller.
	Delivered bool
	nextCalls int
	execCalls int
	Escape    rune // identifier escape character used when parsing INSERT statements
}

func NewStore() *Store {
	return &Store{Tables: map[string]*Table{}, FailNextAt: -1, FailExecAt: -1}
}

// Open opens a *sql.DB on the store. The store is handed to database/sql through a driver.Connector: nothing is
// registered globally, so a store (with its rows and recorded statements) is garbage once its DB is closed.
func Open(s *Store) *sql.DB {
	return sql.OpenDB(connector{s})
}

type connector struct{ s *Store }

func (c connector) Connect(context.Context) (driver.Conn, error) { return &conn{c.s}, nil }
func (c connector) Driver() driver.Driver                        { return drv{} }

type drv struct{}

func (drv) Open(name string) (driver.Conn, error) {
	return nil, fmt.Errorf("sqlmem stores are opened with sqlmem.Open, not by name (%q)", name)
}

type conn struct{ s *Store }

func (c *conn) Prepare(query string) (driver.Stmt, error) {
	c.s.Trace = append(c.s.Trace, "prepare")
	if c.s.FailPrepare {
		c.s.Delivered = true
		return nil, ErrInjected
	}
	return &stmt{c.s, query}, nil
}
func (c *conn) Close() error { return nil }
func (c *conn) Begin() (driver.Tx, error) {
	c.s.Trace = append(c.s.Trace, "begin")
	if c.s.FailBegin {
		c.s.Delivered = true
		return nil, ErrInjected
	}
	return tx{c.s}, nil
}

type tx struct{ s *Store }

func (t tx) Commit() error   { t.s.Trace = append(t.s.Trace, "commit"); return nil }
func (t tx) Rollback() error { t.s.Trace = append(t.s.Trace, "rollback"); return nil }

type stmt struct {
	s     *Store
	query string
}

func (st *stmt) Close() error  { return nil }
func (st *stmt) NumInput() int { return -1 }

func (st *stmt) Exec(args []driver.Value) (driver.Result, error) {
	s := st.s
	s.Trace = append(s.Trace, "exec")
	n := s.execCalls
	s.execCalls++
	if s.FailExecAt >= 0 && n >= s.FailExecAt {
		s.Delivered = true
		return nil, ErrInjected
	}
	cp := append([]driver.Value(nil), args...)
	s.Execs = append(s.Execs, Exec{Query: st.query, Args: cp})
	if table, cols, ok := ParseInsert(st.query, s.Escape); ok {
		t := s.Tables[table]
		if t == nil {
			t = &Table{Cols: cols}
			s.Tables[table] = t
		}
		t.Rows = append(t.Rows, cp)
	}
	return driver.RowsAffected(1), nil
}

func (st *stmt) Query(args []driver.Value) (driver.Rows, error) {
	s := st.s
	s.Trace = append(s.Trace, "query")
	if s.FailQuery {
		s.Delivered = true
		return nil, ErrInjected
	}
	q := strings.TrimSpace(st.query)
	if strings.HasPrefix(q, "SELECT * FROM ") {
		if t := s.Tables[strings.TrimPrefix(q, "SELECT * FROM ")]; t != nil {
			return &rows{s: s, cols: t.Cols, data: t.Rows}, nil
		}
	}
	return &rows{s: s, cols: s.ResultCols, data: s.ResultRows}, nil
}

type rows struct {
	s    *Store
	cols []string
	data [][]driver.Value
	pos  int
	buf  []byte // the read buffer []byte values are handed over in (reused for every row)
}

func (r *rows) Columns() []string { return r.cols }
func (r *rows) Close() error      { r.s.Trace = append(r.s.Trace, "rows.close"); return nil }
func (r *rows) Next(dest []driver.Value) error {
	s := r.s
	s.Trace = append(s.Trace, "next")
	n := s.nextCalls
	s.nextCalls++
	if s.FailNextAt >= 0 && n >= s.FailNextAt {
		s.Delivered = true
		return ErrInjected
	}
	if r.pos >= len(r.data) {
		return io.EOF
	}
	copy(dest, r.data[r.pos])
	// like a driver reading from the wire, []byte values are handed over in ONE buffer that is
	// overwritten by the next row (database/sql: such memory is only valid until the next call)
	if r.buf == nil {
		r.buf = make([]byte, 0, 1<<16)
	}
	r.buf = r.buf[:0]
	for _, v := range dest {
		if b, ok := v.([]byte); ok {
			r.buf = append(r.buf, b...)
		}
	}
	off := 0
	for i, v := range dest {
		if b, ok := v.([]byte); ok {
			dest[i] = r.buf[off : off+len(b) : off+len(b)]
			off += len(b)
		}
	}
	r.pos++
	return nil
}

// ParseInsert understands the statement text ToSQL is specified to produce:
// INSERT INTO <q>table<q> (<q>c1<q>,...) VALUES (...);
func ParseInsert(q string, escape rune) (table string, cols []string, ok bool) {
	const pre = "INSERT INTO "
	if !strings.HasPrefix(q, pre) {
		return "", nil, false
	}
	rest := q[len(pre):]
	i := strings.Index(rest, " (")
	j := strings.Index(rest, ") VALUES (")
	if i < 0 || j < i {
		return "", nil, false
	}
	unq := func(s string) string {
		if escape != 0 {
			e := string(escape)
			if strings.HasPrefix(s, e) && strings.HasSuffix(s, e) && len(s) >= 2*len(e) {
				return s[len(e) : len(s)-len(e)]
			}
		}
		return s
	}
	table = unq(rest[:i])
	for _, c := range strings.Split(rest[i+2:j], ",") {
		cols = append(cols, unq(c))
	}
	return table, cols, true
}
