//go:build verif

package verifseam
