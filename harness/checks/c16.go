package checks

import (
	"bytes"
	"fmt"
	"math"
	"strconv"

	"github.com/tobgu/qframe"
	seam "github.com/tobgu/qframe/verifseam"

	"verif/harness/core"
)

// C16 — Floats are rendered as the shortest decimal that round-trips.

type floatCase struct {
	Bits  uint64 `json:"bits"`
	State int    `json:"state"` // destination buffer state 0..3
	JSON  bool   `json:"json,omitempty"`
}

// bufState builds the destination buffer and returns it together with the prefix it must keep.
func bufState(state int) ([]byte, []byte) {
	switch state {
	case 1: // empty with spare capacity filled with '#'
		b := bytes.Repeat([]byte{'#'}, 400)
		return b[:0], nil
	case 2: // non-empty prefix with exactly fitting capacity
		b := []byte(`{"k":`)
		return b[:len(b):len(b)], []byte(`{"k":`)
	case 3: // non-empty prefix with dirty spare capacity
		b := append([]byte(`[1,`), bytes.Repeat([]byte{'9'}, 400)...)
		return b[:3], []byte(`[1,`)
	}
	return nil, nil
}

// appendFloat64f is the formatter under test: the repository's AppendFloat64f through the seam, or, when the
// seam does not compile against the tree (internal/ryu's API changed), the text ToJSON writes for a one-cell
// frame (the buffer states then only vary the prefix the text is appended to here).
func appendFloat64f(dst []byte, f float64) []byte {
	if seam.RyuAvailable {
		return seam.AppendFloat64f(dst, f)
	}
	var buf bytes.Buffer
	if err := qframe.New(map[string]interface{}{"f": []float64{f}}).ToJSON(&buf); err != nil {
		return append(dst, "<ToJSON error>"...)
	}
	b := buf.Bytes() // [{"f":<text>}]
	if len(b) < 9 {
		return append(dst, b...)
	}
	return append(dst, b[6:len(b)-2]...)
}

func checkFloat(bits uint64, state int) *core.Failure {
	f := math.Float64frombits(bits)
	dst, prefix := bufState(state)
	out := appendFloat64f(dst, f)
	want := strconv.FormatFloat(f, 'f', -1, 64)
	if len(out) < len(prefix) || !bytes.Equal(out[:len(prefix)], prefix) {
		return core.Failf("AppendFloat64f(%#x = %g) state %d damaged the prefix %q: %q", bits, f, state, prefix, out)
	}
	got := string(out[len(prefix):])
	if got != want {
		return core.Failf("AppendFloat64f(%#x = %g) buffer state %d: %q, strconv gives %q", bits, f, state, got, want)
	}
	if back, err := strconv.ParseFloat(got, 64); err != nil || math.Float64bits(back) != bits {
		return core.Failf("AppendFloat64f(%#x = %g): %q parses back to %#x (%v)", bits, f, got, math.Float64bits(back), err)
	}
	return nil
}

// jsonBadBits is set by checkFloatJSON to the bit pattern of the first value whose text differs.
var jsonBadBits uint64

func checkFloatJSON(vals []float64) *core.Failure {
	if f := checkFloatJSONOn(qframe.New(map[string]interface{}{"f": vals}), vals, "a fresh frame"); f != nil {
		return f
	}
	// the same rows through a frame whose index is neither the identity nor dense: stored in reverse order
	// behind a junk row, restored by Filter and Sort
	n := len(vals)
	rev, ids := make([]float64, n+1), make([]int, n+1)
	rev[0], ids[0] = 123.456, -1
	for i, v := range vals {
		rev[n-i], ids[n-i] = v, i
	}
	d := qframe.New(map[string]interface{}{"f": rev, "id": ids}).Filter(qframe.Filter{Column: "id", Comparator: ">=", Arg: 0}).Sort(qframe.Order{Column: "id"}).Select("f")
	if f := checkFloatJSONOn(d, vals, "a filtered and sorted frame"); f != nil {
		return f
	}
	// what one view of a column is written as must not decide how another view of it is written: a Slice that shows
	// whole numbers only is written first, then the whole frame, then the other Slice
	mixed := append(append([]float64{1, 2, -3}, vals...), 4, 5)
	p := qframe.New(map[string]interface{}{"f": mixed})
	if f := checkFloatJSONOn(p.Slice(0, 3), mixed[:3], "a Slice showing whole numbers only (written first)"); f != nil {
		return f
	}
	if f := checkFloatJSONOn(p, mixed, "the whole frame, after a Slice of whole numbers was written"); f != nil {
		return f
	}
	if f := checkFloatJSONOn(p.Slice(3, len(mixed)), mixed[3:], "the other Slice of the frame"); f != nil {
		return f
	}
	// columns made from a constant: written as the cells the views show
	for _, v := range []float64{math.Copysign(0, -1), 0, 1, -2.5, 1e300, 5e-324, math.MaxFloat64, 1e21, 123456789012345680} {
		cq := qframe.New(map[string]interface{}{"f": qframe.ConstFloat{Val: v, Count: 3}})
		if cq.Err != nil {
			return core.Failf("New(ConstFloat %g): %v", v, cq.Err)
		}
		view := cq.MustFloatView("f")
		shown := []float64{view.ItemAt(0), view.ItemAt(1), view.ItemAt(2)}
		if f := checkFloatJSONOn(cq, shown, fmt.Sprintf("a constant column (ConstFloat %g)", v)); f != nil {
			return f
		}
		if f := checkFloatJSONOn(cq.Sort(qframe.Order{Column: "f"}).Slice(1, 3), shown[1:], fmt.Sprintf("a sorted and sliced constant column (ConstFloat %g)", v)); f != nil {
			return f
		}
		ap := qframe.New(map[string]interface{}{"g": []int{1, 2}}).Apply(qframe.Instruction{Fn: v, DstCol: "f"}).Select("f")
		if ap.Err == nil {
			av := ap.MustFloatView("f")
			if f := checkFloatJSONOn(ap, []float64{av.ItemAt(0), av.ItemAt(1)}, fmt.Sprintf("a column made by Apply of the constant %g", v)); f != nil {
				return f
			}
		}
	}
	return nil
}

func checkFloatJSONOn(q qframe.QFrame, vals []float64, what string) *core.Failure {
	if q.Err != nil {
		return core.Failf("could not build %s: %v", what, q.Err)
	}
	var buf bytes.Buffer
	if err := q.ToJSON(&buf); err != nil {
		return core.Failf("ToJSON: %v", err)
	}
	var want bytes.Buffer
	want.WriteByte('[')
	for i, v := range vals {
		if i > 0 {
			want.WriteByte(',')
		}
		want.WriteString(`{"f":`)
		want.WriteString(strconv.FormatFloat(v, 'f', -1, 64))
		want.WriteByte('}')
	}
	want.WriteByte(']')
	if !bytes.Equal(buf.Bytes(), want.Bytes()) {
		// find the first differing record
		g, w := bytes.Split(buf.Bytes(), []byte("},{")), bytes.Split(want.Bytes(), []byte("},{"))
		for i := range w {
			if i >= len(g) || !bytes.Equal(g[i], w[i]) {
				gi := []byte("<missing>")
				if i < len(g) {
					gi = g[i]
				}
				jsonBadBits = math.Float64bits(vals[i])
				return core.Failf("ToJSON of %s: float text differs at row %d (%#x = %g): got %q want %q", what, i, math.Float64bits(vals[i]), vals[i], gi, w[i])
			}
		}
		return core.Failf("ToJSON of %s: float output differs", what)
	}
	return nil
}

func runFloatCase(c floatCase) *core.Failure {
	if c.JSON {
		return checkFloatJSON([]float64{1, math.Float64frombits(c.Bits), -2.5})
	}
	return checkFloat(c.Bits, c.State)
}

// f1Mantissas: structured 52-bit mantissas.
func f1Mantissas() []uint64 {
	const top = uint64(1)<<52 - 1
	m := []uint64{0, 1, 2, top, top - 1, 0x5555555555555 & top, 0xAAAAAAAAAAAAA & top, 0x3333333333333 & top, 0xF0F0F0F0F0F0F & top, 0x00000FFFFFFFF, 0xFFFFF00000000 & top}
	for k := 0; k < 52; k++ {
		p := uint64(1) << k
		m = append(m, p, p-1, p+1, top^p)
	}
	// deduplicate
	seen := map[uint64]bool{}
	var out []uint64
	for _, x := range m {
		x &= top
		if !seen[x] {
			seen[x] = true
			out = append(out, x)
		}
	}
	return out
}

func c16Run(ctx *core.Ctx) {
	if !seam.RyuAvailable {
		ctx.Note("the seam into internal/ryu does not compile against this tree: every value is formatted through ToJSON of a one-cell frame instead; the destination-buffer states are not exercised")
	}
	var evals, nontrivCount int64
	try := func(bits uint64, family string, track bool) {
		f := math.Float64frombits(bits)
		if math.IsNaN(f) {
			return
		}
		for state := 0; state < 4; state++ {
			evals++
			if fail := core.Guard(func() *core.Failure { return checkFloat(bits, state) }); fail != nil {
				ctx.Report(floatCase{Bits: bits, State: state}, fail)
			}
		}
		if f != math.Trunc(f) || math.Abs(f) >= 1e21 {
			nontrivCount++
			if track {
				ctx.Nontrivial(strconv.FormatUint(bits, 16))
			}
		}
		if ctx.WantSample() && bits%1009 == 3 {
			ctx.Sample(map[string]interface{}{"family": family, "bits": fmt.Sprintf("%#x", bits), "value": strconv.FormatFloat(f, 'g', -1, 64), "text": strconv.FormatFloat(f, 'f', -1, 64)})
		}
	}
	// specials
	if ctx.Mine() {
		for _, b := range []uint64{0, 1 << 63, 0x7FF0000000000000, 0xFFF0000000000000, 1, 1<<63 | 1, 0x7FEFFFFFFFFFFFFF, 0x0010000000000000, 0x000FFFFFFFFFFFFF} {
			try(b, "special", true)
		}
		ctx.Outcome("special")
	}
	// F1: every biased exponent x structured mantissas x both signs
	mants := f1Mantissas()
	for exp := uint64(0); exp <= 2046; exp++ {
		if !ctx.Mine() {
			continue
		}
		for _, m := range mants {
			for _, sign := range []uint64{0, 1 << 63} {
				try(sign|exp<<52|m, "F1", true)
			}
		}
		ctx.Outcome("F1/exponent-row")
	}
	// F2: every integer |v| <= 2^K with both float neighbours, powers of two and ten with +-3 ulp
	K := 20
	if !ctx.Quick() {
		K = 22
	}
	const blk = 1 << 12
	for base := 0; base <= 1<<K; base += blk {
		if !ctx.Mine() {
			continue
		}
		for v := base; v < base+blk && v <= 1<<K; v++ {
			f := float64(v)
			b := math.Float64bits(f)
			try(b, "F2", false)
			try(b|1<<63, "F2", false)
			if v > 0 {
				try(b+1, "F2", true)
				try(b-1, "F2", true)
			}
		}
		ctx.Outcome("F2/integers")
	}
	for k := -1074; k <= 1023; k++ {
		if !ctx.Mine() {
			continue
		}
		b := math.Float64bits(math.Ldexp(1, k))
		for d := -3; d <= 3; d++ {
			if int64(b)+int64(d) >= 0 {
				try(uint64(int64(b)+int64(d)), "F2pow2", true)
			}
		}
		ctx.Outcome("F2/pow2")
	}
	for k := -323; k <= 308; k++ {
		if !ctx.Mine() {
			continue
		}
		f, _ := strconv.ParseFloat("1e"+strconv.Itoa(k), 64)
		b := math.Float64bits(f)
		for d := -3; d <= 3; d++ {
			if int64(b)+int64(d) >= 0 {
				try(uint64(int64(b)+int64(d)), "F2pow10", true)
			}
		}
		ctx.Outcome("F2/pow10")
	}
	// F3: every decimal d * 10^k
	maxD := 999
	if !ctx.Quick() {
		maxD = 9999
	}
	for k := -330; k <= 310; k++ {
		if !ctx.Mine() {
			continue
		}
		for d := 1; d <= maxD; d++ {
			f, err := strconv.ParseFloat(strconv.Itoa(d)+"e"+strconv.Itoa(k), 64)
			if err != nil || math.IsInf(f, 0) {
				continue
			}
			try(math.Float64bits(f), "F3", false)
		}
		ctx.Outcome("F3/decimals")
	}
	// through ToJSON: F2 slice and an F1 slice
	if ctx.Mine() {
		var vals []float64
		for v := 0; v <= 4096; v++ {
			vals = append(vals, float64(v), -float64(v)-0.5, float64(v)+0.1, float64(v)*1e15)
		}
		for exp := uint64(0); exp <= 2046; exp += 1 {
			vals = append(vals, math.Float64frombits(exp<<52|0x5555555555555), math.Float64frombits(1<<63|exp<<52|1))
		}
		// whole numbers from 2^53 to beyond 2^64 (no fractional bits left; around the int64/uint64 limits)
		for k := 52; k <= 66; k++ {
			b := math.Float64bits(math.Ldexp(1, k))
			for d := int64(-3); d <= 3; d++ {
				vals = append(vals, math.Float64frombits(uint64(int64(b)+d)), -math.Float64frombits(uint64(int64(b)+d)))
			}
			vals = append(vals, math.Ldexp(1, k)+math.Ldexp(1, k-40), math.Ldexp(3, k-1), math.Ldexp(5, k-2)+math.Ldexp(1, k-50))
		}
		ctx.Add("evaluations", 1)
		ctx.Add("traces", 1)
		if fail := core.Guard(func() *core.Failure { return checkFloatJSON(vals) }); fail != nil {
			ctx.Report(floatCase{JSON: true, Bits: jsonBadBits}, fail) // replayed with exactly the value that differed
		}
		ctx.Add("tojson_values", int64(len(vals)))
		ctx.Outcome("ToJSON")
	}
	// F4 (thorough): all 2^32 float32 values widened to float64, two buffer states alternating
	if !ctx.Quick() && seam.RyuAvailable {
		for hi := uint32(0); hi < 1<<16; hi++ {
			if !ctx.Mine() {
				continue
			}
			for lo := uint32(0); lo < 1<<16; lo++ {
				u := hi<<16 | lo
				f32 := math.Float32frombits(u)
				f := float64(f32)
				if f != f {
					continue
				}
				state := int(lo&1) * 3
				evals++
				dst, prefix := bufState(state)
				out := appendFloat64f(dst, f)
				want := strconv.AppendFloat(prefix, f, 'f', -1, 64)
				if !bytes.Equal(out, want) {
					ctx.Report(floatCase{Bits: math.Float64bits(f), State: state}, core.Failf("AppendFloat64f(float32 %#x = %g): %q, strconv gives %q", u, f, out, want))
				}
			}
			ctx.Add("f4_float32_values", 1<<16)
		}
		ctx.Outcome("F4/float32")
	}
	ctx.Add("evaluations", evals)
	ctx.Add("traces", evals)
	ctx.Add("nontrivial_values_counted", nontrivCount)
}

func init() {
	core.Register(&core.Check{
		ID:    "C16",
		Level: "model_checking",
		Rule: "complete enumeration of finite families of float64 bit patterns, each in 4 destination-buffer states (nil; empty with dirty spare capacity; prefix with exactly fitting capacity; prefix with dirty spare capacity): " +
			"F1 every biased exponent 0..2046 x ~220 structured mantissas x both signs; F2 every integer |v| <= 2^20 (2^22) with both float neighbours, every power of two and ten with +-3 ulp; F3 every decimal d*10^k, d <= 999 (9999), k in -330..310; F4 (thorough) all 2^32 float32 values widened; plus zeros, infinities, extremes, and ~24000 values through ToJSON. " +
			"Oracle: output = prefix + strconv.FormatFloat(f,'f',-1,64), prefix untouched, text parses back to the identical bits. Non-trivial = value with a fractional part or >= 1e21 (distinct bit patterns, tracking capped; nontrivial_values_counted is the uncapped count).",
		Assumptions: []string{
			"the domain 2^64 cannot be enumerated; exhaustive refers to the listed families (about 2^32 of 2^64 values in thorough)",
			"strconv.FormatFloat is the specification (the statement names it)",
		},
		Bound: map[string]string{
			"quick":    "F1, F2 (|v|<=2^20), F3 (d<=999), ToJSON slice",
			"thorough": "F1, F2 (|v|<=2^22), F3 (d<=9999), F4 all float32 values",
		},
		Run:    c16Run,
		Replay: replayAs(runFloatCase),
	})
}
