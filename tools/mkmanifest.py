#!/usr/bin/env python3
"""Regenerates /verif/MANIFEST.json from the table below (kept in one place so
the manifest is always schema-valid)."""
import json, os, subprocess
HERE = os.path.dirname(os.path.dirname(os.path.abspath(__file__)))

CHECKS = {
 "C03": dict(
   technique="bounded-exhaustive enumeration of (frame, index shape, order list) and of seam entries into the real quickSort/heapSort; predicate oracle (permutation + ordered)",
   text="Every frame over small per-type alphabets up to the stated row count, every order list of 1-2 keys with every Reverse/NullLast combination, on eight physical index shapes, plus every 0/1 and 0/1/2 key sequence across the insertion/median-of-three regimes, ninther-size patterns with all <=2 deviations, and the real heapSort/quickSort entered through an overlay seam on every small input and sub-range. Each execution of the real code is checked against the statement's order relation; no expected output is computed.",
   note="Trusted: the 60-line reference comparator; Go toolchain. Values outside the alphabets and frames above the stated sizes are not explored.",
   design="5/C03"),
}

CHECKS["C02"] = dict(
   technique="bounded-exhaustive enumeration of clause trees x frames x index shapes; row-wise reference evaluator",
   text="Every leaf of a ~600-leaf alphabet (all comparators x argument kinds x Inverse for all five column types) alone and in wrappers on 5 frames x 7 physical index shapes, every ordered pair of leaves under And/Or/Or(Not), and every And/Or/Not tree up to 3 (quick) / 4 (thorough) leaf slots with every assignment of core leaves, each executed by the real Filter and compared with a row-wise evaluator of the statement (kept rows, order, all cells).",
   note="Trusted: the reference evaluator (model/clause.go). Cell values are limited to one designed 5-row frame and three degenerate frames; enum columns are declared.",
   design="5/C02")

CHECKS["C04"] = dict(
   technique="explicit enumeration of key patterns x hash-collision patterns against the real hash table through a Comparable seam, plus bounded-exhaustive frames through the public API; partition oracle",
   text="The repository's hash table is driven with harness-chosen hash values so that every collision pattern (equal 32-bit hashes, same bucket before/after growth, wrap-around) of every key pattern up to 6-8 rows and every growth step is executed, and the public GroupBy/Aggregate/QFrames is run on every frame up to 3 (quick) / 4 (thorough) rows over per-type key alphabets with every key selection, Null setting and 15 aggregations including recording user functions. Oracle: groups = partition by key equality, rows in frame order, aggregates = fold over exactly the group's values.",
   note="Trusted: partition/fold model in checks/c04.go; overlay seam only re-exports internal/grouper. Real-hash collisions are not searched for; they are modelled at the Comparable seam.",
   design="5/C04")
CHECKS["C05"] = dict(
   technique="same enumerations as C04 with Distinct (table seam with chosen hashes + public API); one-representative-per-class oracle",
   text="grouper.Distinct under every chosen collision/growth pattern and QFrame.Distinct on every small frame (plus string keys of 21 lengths at 9 byte alignments), key selection (including none = all columns), Null setting and index shape; oracle: exactly one unmodified input row per key class.",
   note="Trusted: partition model; cell values limited to the per-type alphabets.",
   design="5/C05")

CHECKS["C01"] = dict(
   technique="stateless depth-first search over operation histories on live objects (explicit-state exploration, no state merging); differential invariant re-checked on every member after every step",
   text="Every history of up to 3 (quick) / 4 (thorough) steps over some 60 operations, each step applied to any member of the growing family (frames, groupers, group frames, typed views), from 4 initial frames including one built on caller-owned slices. After every step every member's full observation (Len, names, types, ColumnTypeMap, every cell through typed views, Err, Grouper.QFrames, View.ItemAt) and every argument object is compared with its observation at creation.",
   note="Differential oracle, no model. Sound reuse of parent objects by children; a failure is replayed from scratch (or, if it only reproduces with sibling steps, with the complete search history) before it is reported.",
   design="5/C01")

CHECKS["C06"] = dict(
   technique="bounded-exhaustive enumeration of instruction programs x frame variants x FilteredApply clauses; sequential row-wise reference model",
   text="Every instruction list of length <= 2 (quick; 3 over a reduced alphabet in thorough) over ~150 instructions covering every instruction shape and supported function signature with overlapping sources and destinations, on 8 frame variants (eight physical index shapes and frames produced by Aggregate, Select and Copy), the same programs under 6 FilteredApply clauses, and WithRowNums; names, positions, types and every cell of the result are compared with the model, zero-argument functions additionally by call count.",
   note="Trusted: model/apply.go. Three recorded defects of FilteredApply (constant, column copy and enum ToUpper instructions ignore the filter) are attributed by model switches and printed as KNOWN-FINDING; any other discrepancy is a violation.",
   design="5/C06")

CHECKS["C07"] = dict(
   technique="bounded-exhaustive enumeration of typed expression trees (plus single-mutation invalid trees) x destinations x construction styles x contexts; interpreter reference model",
   text="Every well-typed expression tree of depth <= 2 over columns and constants of every type, all default-context functions and two user-registered functions (depth 3 over a reduced alphabet in thorough), n-ary calls with 3-4 arguments, built both through Expr/Val and as raw nested lists, with the destination a new name, a source column or another column, on eight index shapes; invalid trees by single mutation at every position. The result frame (columns, positions, types, every cell, no surviving temporary, Err exactly when the model says so) is compared with an interpreter of the statement.",
   note="Trusted: model/expr.go interpreter and its copies of the public function package's semantics. One 4-row frame.",
   design="5/C07")

CHECKS["C08"] = dict(
   technique="complete enumeration of a finite input space (column maps x ColumnOrder x Enums variants; projection requests x index shapes) against a reference model",
   text="Every column map of 0-3 columns over 13 data kinds (all supported slice and Const types, unsupported types, nil) with every length combination, every ColumnOrder variant (permutations, too short/long, unknown, duplicate) and Enums variant, legal and illegal names, string cells of arbitrary bytes; and every Select sequence, Drop subset, Slice bound pair around 0..n and Copy pair on eight index shapes. New must reject exactly what the model rejects and otherwise reproduce every cell; projections must return exactly the requested columns/rows or Err.",
   note="Trusted: modelNew/runProjCase in checks/c08.go. Two readings deliberately left open (row count of a zero-column frame; Drop of a non-existent column).",
   design="5/C08")

CHECKS["C09"] = dict(
   technique="explicit-state exploration of the reachable frame family (history DFS over the operation alphabet) with cross-observer and Equals oracles evaluated on every reached frame and every ordered pair",
   text="Every non-error frame reachable within 3 steps of the 40-operation alphabet from 4 initial frames (so physical and logical row order differ arbitrarily): Len, names, types, view Len/Slice/ItemAt, ToCSV, ToJSON and String output are parsed and compared cell by cell with the typed views; Equals is compared with the statement's cell-wise equality (and for symmetry) on the New-rebuilt twin, four single-mutation twins and every ordered pair of frames within depth 1 (quick) / 2 (thorough); congruence (Equal twins yield Equal results) under every frame operation.",
   note="Trusted: reference CSV parser, encoding/json token stream, fixed-width parse of String(). Views' ItemAt is the reference observation.",
   design="5/C09")

CHECKS["C10"] = dict(
   technique="complete enumeration of argument-zoo products per operation and of error-continuation histories (depth-bounded) with counting callbacks",
   text="Full products of argument menus drawn from the documented dynamic union types for Filter (6 columns x 28 comparators x 22 arguments x Inverse, in 5 clause wrappers), Apply/FilteredApply (26 Fn values x 6 names x 7x7 sources), GroupBy/Aggregate (16 Fn x 6 columns x 4 As x 4 key lists) and ~50 other invalid requests, on 5 frame variants incl. an empty and an aggregated frame: never a panic; everything the classification table calls invalid sets Err with Len() = -1. Every errored frame (about 100 ways of producing one) x every continuation of length <= 2 over 31 operations with counting callbacks: the error is kept, no callback runs, GroupBy/Aggregate/QFrames carry it, ToCSV/ToJSON/ToSQL fail without writing.",
   note="Trusted: the validity tables in checks/c10.go (combinations they leave unclassified are checked for panics only).",
   design="5/C10")

CHECKS["C12"] = dict(
   technique="deviation-bounded exhaustive exploration of io.Reader answers (read fragmentation, EOF placement) x grammar-generated documents x configurations, on ReadCSV and on the real scanner through a buffer-capacity seam; differential + reference-parser oracles",
   text="The harness owns the io.Reader: for every RFC 4180 document of the grammar family it enumerates every read schedule with up to 2 (quick) / 3 (thorough) departures from the single-read default, all uniform k-byte readers and both EOF conventions, and for documents up to 11 (13) bytes every one of the 2^(L-1) fragmentations, also against the real scanner started with a 1-8 byte buffer so refill/shift/reallocation happen on tiny inputs. Every execution must equal the single-read result (differential) and the frame denoted by a reference parser plus type inference; configuration product, long fields around the 1024/2049-byte buffer boundaries, rows of 5000..140000 bytes followed by short rows, enum columns at the 255-value limit and the RowCountHint resize are enumerated as families.",
   note="Trusted: model/csv.go reference parser, strconv-based type inference. Zero-byte reads without error and malformed documents are outside the property.",
   design="5/C12")

CHECKS["C13"] = dict(
   technique="bounded-exhaustive enumeration of frames x writer options x reader options; round-trip oracle plus independent reference reader of the written bytes",
   text="All cell sequences of length <= 3 over per-type alphabets chosen for the writer/reader edge cases (quotes, delimiters, line feeds, blanks, invalid UTF-8, numeric-looking strings; +-0, subnormal, max, +-Inf, NaN; integer extremes; enums with a declared order) for one column of every type, and every type combination of three columns over reduced alphabets with every Columns permutation, each with Header on/off, EmptyNull on/off and eight index shapes. The bytes written by ToCSV are parsed by the reference RFC 4180 parser (fields must denote the cells by value) and read back by ReadCSV with declared types; the result must equal the frame cell by cell (floats bit-identical).",
   note="Trusted: reference parser; strings without CR only.",
   design="5/C13")

CHECKS["C14"] = dict(
   technique="complete enumeration of byte-string families for cells and column names, structured float families, degenerate frames; JSON token-stream oracle and ReadJSON round trip",
   text="String/enum cells and column names over every single byte, every 2- and 3-byte (thorough: 4-byte) combination of a 12-byte risk alphabet, line/paragraph separators, multi-byte runes and malformed UTF-8; floats over every exponent with structured mantissas, small decimals and powers of ten with neighbours, NaN; integer extremes; zero rows and zero columns; eight index shapes. The output must be valid JSON whose token stream has one object per row in row order with keys in column order and values equal to the cells (invalid bytes as U+FFFD, floats bit-identical), and ReadJSON must reproduce the frame where JSON can carry it.",
   note="Trusted: encoding/json tokenizer. ReadJSON inversion asserted for valid UTF-8, NaN-free floats, >= 1 row.",
   design="5/C14")
CHECKS["C16"] = dict(
   technique="complete enumeration of finite float64 families x destination-buffer states against strconv.FormatFloat (the statement's specification)",
   text="Every biased exponent x ~220 structured mantissas x both signs, every integer up to 2^20 (2^22) with both neighbours, every power of two/ten with +-3 ulp, every decimal d*10^k with d <= 999 (9999), and in thorough all 2^32 float32 values widened to float64, each formatted by the real AppendFloat64f into four buffer states (nil, dirty spare capacity, exactly fitting prefix, prefix with dirty spare capacity) and through ToJSON; output must equal strconv.FormatFloat(f,'f',-1,64) after an untouched prefix and parse back to the identical bits.",
   note="exhaustive refers to the listed families (about 2^32 of the 2^64 bit patterns in thorough); values outside them are not covered.",
   design="5/C16")

CHECKS["C15"] = dict(
   level="fault_enumeration",
   technique="exhaustive fault-position enumeration: harness-owned io.Reader / io.Writer / database/sql driver failing at every byte offset, Write call or driver call of the fault-free trace",
   text="For ReadCSV/ReadJSON a reader failing at every byte offset 0..L (L = error instead of EOF) with 0-2 bytes delivered together with the error, six read fragmentations and three error values (a plain error, io.ErrUnexpectedEOF, an error wrapping io.EOF); for ToCSV/ToJSON a writer failing at every Write call and short-writing at every byte offset (incl. an output larger than encoding/csv's buffer); for ReadSQL/ToSQL an in-memory driver failing at Prepare, Query, every Rows.Next (incl. instead of EOF) and every Exec. Whenever the injected fault was actually returned to the code under test the call must report an error, an error-free result must be the complete fault-free result, and nothing may panic.",
   note="Faults are permanent from their position on. One exemption: ReadJSON need not report an error that arrives together with the last bytes of a complete document. Commit is not exercised (qframe never calls it).",
   design="5/C15")

CHECKS["C19"] = dict(
   technique="bounded-exhaustive enumeration of frames x dialect configurations and of result sets x coercion/precision configurations against a recording in-memory database/sql driver",
   text="ToSQL on every two-column frame over all type pairs with 1-3 rows (nulls, NaN, -0, MaxInt64) x escape character x placeholder style x table name x index shape: exactly one INSERT per row in frame order with the specified statement text and arguments, then read back through ReadSQL from the store. ReadSQL on every result set of up to 2 (3) columns from 7 column alternatives and up to 3 (4) rows with NULL in every position, coercions and precision: names, order, types and values must match.",
   note="Trusted: harness driver sqlmem (records what database/sql hands over). Homogeneous columns; all-NULL columns are outside the property.",
   design="5/C19")

CHECKS["C18"] = dict(
   technique="complete enumeration of patterns x cells over a code-point alphabet, x cell orders (the matcher keeps a buffer across cells), against the statement's matching rules",
   text="Every pattern of up to 3 code points over a 13-code-point alphabet plus % (wildcards at either end, empty, only %, regex metacharacters, invalid regex) with like and ilike, evaluated by the real Filter on a column holding every cell string of up to 3 code points over the same alphabet plus lengths 5-15 around the matcher's 10-byte buffer, as a string column in three cell orders and as enum columns; a 14-cell core in every sequence of 3 through ilike and through the zero-allocation ToUpper itself with four buffer sizes. Reference: literal/prefix/suffix/contains after trimming one %, strings.ToUpper for ilike, Go regexp for patterns with metacharacters, nulls never match.",
   note="Trusted: strings.ToUpper, regexp. Alphabet chosen for case mappings that change the UTF-8 length, have no simple upper case, or sit at the 0x80 boundary; other code points are not covered.",
   design="5/C18")

CHECKS["C17"] = dict(
   technique="complete enumeration of declared value lists x data columns x construction paths, with boundary families at the bitset words and the 255-value limit; rank-based reference model",
   text="Every permutation of every subset of three values (and no declaration) x every data column of up to 3 cells incl. null and an undeclared value x construction through New+Enums, ReadCSV+Types/EnumValues, ReadJSON+Enums and ConstString; declared lists of 63..255 values (and 256, 300: rejected) with data on the ranks around every 64-bit bitset word; derived enums of cardinality 1..255 (accepted) and 256, 257, 300 (clean Err). Accepted columns must reproduce the data, compare and sort by declared rank, reject undeclared filter constants, and select exactly the named values with in/like/ilike.",
   note="Trusted: rank model in model/clause.go and C03's order predicate.",
   design="5/C17")

CHECKS["C11"] = dict(
   technique="stateless schedule exploration under a hand-written cooperative scheduler (all interleavings at callback granularity, preemption-bounded for 3 threads) plus an exhaustive-over-pairs free-running pass under the Go race detector",
   text="Two logical threads running every pair of 12 callback-bearing operations (and each against 23 callback-free ones) on the same frame, on a slice / sorted copy / column copy of it, or both on one frame that was itself derived by adding columns are executed under EVERY interleaving of their scheduling points (operation start/end and each user callback invocation); three threads under preemption bound 2 (3). Each operation must return what it returns alone and the shared frame must be unchanged. Because qframe has no synchronisation operations the scheduler cannot interleave inside an operation, so unsynchronised accesses are decided by a separate free-running pass of every pair and self-pair of all 35 operations x 5 sharing relations in a -race build (happens-before detection makes the verdict schedule-independent for two synchronisation-free operations forked from a barrier). Every scheduler execution and every second race repetition starts cold (fresh frames, expected results computed on an equal twin) and after a primer of failing calls, so state that is built lazily or left behind by error paths is built/used under the schedule.",
   note="Trusted: Go race detector (4 shadow accesses per word); the cooperative scheduler in core/sched.go (replay of a prefix must reproduce the recorded enabled sets). Access-level interleavings are not enumerated; see DESIGN.md C11.",
   design="5/C11")

NOT_YET = {}
BASELINE_CMD = "for m in $(cat /w/out/gomods.txt); do MF=$(cd /repo/$m && . /w/out/goenv.sh && gomodflag); (cd /repo/$m && go test $MF -json -vet=off -count=1 -timeout 25m ./...); done"

def main():
    props = [json.loads(l)["id"] for l in open(os.path.join(HERE, "properties.jsonl"))]
    checks = []
    na = []
    for pid in props:
        c = CHECKS.get(pid)
        if c is None:
            na.append({"property_id": pid, "reason": NOT_YET.get(pid, "check not built yet in this session; planned in DESIGN.md section 5")})
            continue
        level = c.get("level", "model_checking")
        checks.append({
            "property_id": pid,
            "quick_cmd": "./run.sh %s quick" % pid,
            "thorough_cmd": "./run.sh %s thorough" % pid,
            "evidence_file": "/verif/evidence/%s.json" % pid,
            "replay_cmd_template": "./bin/qfmc replay {path}",
            "engine": "qfmc",
            "level_claimed": {"category": level, "text": c["text"], "design_ref": c["design"]},
            "level_note": c["note"],
            "technique": c["technique"],
        })
    m = {
        "version": 1,
        "setup_cmd": "./build.sh && ./build.sh race",
        "hooks": {
            "guard": "verif",
            "enable": "go build -tags verif -overlay /verif/build/overlay.json (overlay adds the virtual package verifseam/{core,grouper,sort,csv,strings,ryu,doc}.go and internal/sort/zz_verif.go, internal/fastcsv/zz_verif.go; no file in /repo is modified; if a seam file does not compile against the tree under test, build.sh substitutes its stub and the check layers using that seam are skipped with a note in the evidence)",
            "baseline_off_cmd": json.load(open("/root/.vp/BASELINE.json"))["cmd"] if os.path.exists("/root/.vp/BASELINE.json") else BASELINE_CMD,
            "source_commits": [],
            "add_only": True,
        },
        "engines": [{
            "name": "qfmc", "path": "/verif/harness",
            "serves_properties": [c["property_id"] for c in checks],
            "kind_free_text": "hand-written Go explorer: bounded-exhaustive case enumeration sharded over 16 single-threaded worker processes, executing the real qframe code per case against a reference model / differential invariant; history DFS, environment-deviation explorer and cooperative scheduler for the stateful properties",
        }],
        "checks": checks,
        "not_applicable": na,
        "notes": "All checks rebuild the harness against /repo's working tree (go.mod replace + -overlay) before running. Exit 0 = held on everything explored; exit 1 + VIOLATION line = violation; exit 2 = harness error. Besides comparing what an operation returns with the reference model, the checks C02-C08, C13, C17 and C19 put returned frames through a latent-state battery (harness/checks/battery.go): a fixed list of follow-up programs run on the frame and on a frame rebuilt with New from its observed content, which must agree (exhaustive over the stated list; see DESIGN.md 12.7, round 11).",
    }
    json.dump(m, open(os.path.join(HERE, "MANIFEST.json"), "w"), indent=1)
    try:
        import jsonschema
        jsonschema.validate(m, json.load(open("/root/.vp/MANIFEST.schema.json")))
        print("MANIFEST.json valid: %d checks, %d not_applicable" % (len(checks), len(na)))
    except ImportError:
        print("jsonschema not available; not validated")

if __name__ == "__main__":
    main()
