//go:build verif

// Overlay file: compiled into github.com/tobgu/qframe/internal/sort by
// `go build -overlay`. Adds entry points only; no repository line is replaced.
package sort

// VerifQuickSort enters the real quickSort with a caller-chosen depth budget.
func VerifQuickSort(s Sorter, a, b, depth int) { quickSort(s, a, b, depth) }

// VerifHeapSort enters the real heapSort on the sub-range [a, b).
func VerifHeapSort(s Sorter, a, b int) { heapSort(s, a, b) }

// VerifMaxDepth exposes maxDepth.
func VerifMaxDepth(n int) int { return maxDepth(n) }
