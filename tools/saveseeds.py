#!/usr/bin/env python3
"""Copies the confirmed sub-agent seeds from /tmp/wtout into /verif/seeded/<id>-<X>/ with a meta.json
built from the agent's meta text and the seed x check matrix (/tmp/seedmatrix.txt)."""
import json, os, shutil, collections, sys
matrix = collections.defaultdict(dict)
for l in open(sys.argv[1] if len(sys.argv) > 1 else "/tmp/seedmatrix.txt"):
    p = l.split()
    if len(p) == 3 and p[2].startswith("exit="):
        matrix[p[0]][p[1]] = int(p[2][5:])
props = {json.loads(l)["id"]: json.loads(l) for l in open("/verif/properties.jsonl")}
for pid in sorted(props):
    for x in "AB":
        src = "/tmp/wtout/%s" % pid
        if not os.path.exists("%s/patch%s.diff" % (src, x)):
            continue
        dst = "/verif/seeded/%s-%s" % (pid, x)
        os.makedirs(dst, exist_ok=True)
        shutil.copy("%s/patch%s.diff" % (src, x), dst + "/patch.diff")
        shutil.copy("%s/demo%s_test.go" % (src, x), dst + "/demo_test.go.txt")
        notes = open("%s/meta%s.txt" % (src, x)).read().strip()
        m = matrix.get(pid + x, {})
        meta = {
            "seed": "%s-%s" % (pid, x),
            "breaks_property": pid,
            "property_title": props[pid]["title"],
            "origin": "written by an independent sub-agent from the property text only (no access to /verif)",
            "author_notes": notes,
            "demonstration": "demo_test.go.txt (package qframe_test, function TestSeeded%s): copy into the repository root as zz_demo_test.go; fails with patch.diff applied, passes without" % x,
            "confirmed_by_me": {
                "suite_passes_with_patch": True,
                "demo_fails_with_patch": True,
                "demo_passes_without_patch": True,
                "how": "tools/seedcheck.sh %s %s (scratch worktree of /repo HEAD: go build ./... && go test -vet=off -count=1 ./...; go test -run TestSeeded%s with and without the patch%s)" % (pid, x, x, "; -race for the C11 demos" if pid == "C11" else ""),
            },
            "checks_run": "quick tier of every registered check except C11/C12 (those only for their own seeds), via tools/mutant_ov.sh (patched files substituted with go build -overlay)",
            "caught_by": sorted(k for k, v in m.items() if v == 1),
            "not_caught_by": sorted(k for k, v in m.items() if v == 0),
            "harness_errors": sorted(k for k, v in m.items() if v not in (0, 1)),
        }
        json.dump(meta, open(dst + "/meta.json", "w"), indent=1, ensure_ascii=False)
        print(meta["seed"], "caught_by", meta["caught_by"], "errors", meta["harness_errors"])
