// Package core is the exploration engine shared by all checks: it shards a
// bounded-exhaustive enumeration over worker processes, collects coverage
// counters, classifies failures against the committed known-findings file,
// writes replay records and the evidence file, and implements the exit protocol.
package core

import (
	"crypto/sha256"
	"encoding/hex"
	"encoding/json"
	"fmt"
	"hash/fnv"
	"os"
	"os/exec"
	"path/filepath"
	"runtime/debug"
	"sort"
	"strconv"
	"strings"
	"sync"
	"syscall"
	"time"
)

// Failure describes why one case violated the property.
type Failure struct {
	Msg string `json:"msg"`
	// Finding, when non-empty, is the id of the defect signature the check
	// recognised (by re-evaluating the reference model with exactly that defect
	// switched on). It only suppresses the violation when known_findings.json
	// lists it with status "known".
	Finding string `json:"finding,omitempty"`
}

func Failf(format string, a ...interface{}) *Failure {
	return &Failure{Msg: fmt.Sprintf(format, a...)}
}

// Check is one property's scenario.
type Check struct {
	ID    string
	Level string // model_checking | fault_enumeration
	Rule  string
	// Assumptions are copied to the evidence file.
	Assumptions []string
	// Run enumerates the bounded space of the tier and executes the cases of
	// this shard through ctx.
	Run func(ctx *Ctx)
	// Replay re-executes one case from its descriptor.
	Replay func(raw json.RawMessage) *Failure
	// Parallel lets the worker use all cores itself (C11); otherwise workers
	// are single-threaded processes.
	Parallel bool
	// Workers overrides the number of worker processes (0 = number of CPUs).
	Workers int
	// Bound describes the bound completed per tier.
	Bound map[string]string
	// Setup builds the frames every case of the check starts from (executed under a panic guard
	// before Run; a panic in the code under test while doing so is a violation, replayed by running Setup again).
	Setup func()
}

type setupDesc struct {
	Setup bool `json:"setup_panic"`
}

// enumDesc: the code under test panicked in a statement of the enumeration itself (outside a guarded case);
// replayed by re-executing the worker's case sequence from its start.
type enumDesc struct {
	EnumPanic bool `json:"enumeration_panic"`
}

// panicInLibrary: does the innermost non-runtime frame of a recovered panic's stack belong to the library under test?
func panicInLibrary(stack string) bool {
	lines := strings.Split(stack, "\n")
	seenPanic := false
	for _, l := range lines {
		if strings.HasPrefix(l, "\t") || l == "" {
			continue
		}
		if strings.HasPrefix(l, "panic(") {
			seenPanic = true
			continue
		}
		if !seenPanic || strings.HasPrefix(l, "runtime.") || strings.HasPrefix(l, "runtime/") {
			continue
		}
		return strings.HasPrefix(l, "github.com/tobgu/qframe") && !strings.HasPrefix(l, "github.com/tobgu/qframe/verifseam")
	}
	return false
}

var registry = map[string]*Check{}

func Register(c *Check) { registry[c.ID] = c }

func Lookup(id string) *Check { return registry[id] }

func IDs() []string {
	var ids []string
	for k := range registry {
		ids = append(ids, k)
	}
	sort.Strings(ids)
	return ids
}

const maxTrackedDistinct = 3000000

// Ctx is handed to Check.Run inside a worker.
type Ctx struct {
	Tier    string
	Seed    int64
	Shard   int
	NShards int

	deadline time.Time
	expired  bool
	counter  int64
	ticks    int64

	res result

	nontrivial map[uint64]struct{}
	outcomes   map[string]int64
	ntCapped   bool
	curDesc    interface{}
	// ring holds the descriptors of the cases executed most recently in this worker: if a failing
	// case passes when replayed alone, it is replayed after them (state leaking between calls).
	ring    [6]interface{}
	ringPos int

	// prefix replay (see ReplayMain): re-execute this worker's case sequence up to and including
	// case stopAt, remember whether that case fails, then stop
	prefixMode bool
	stopAt     int64
	stopFail   *Failure

	// fail-fast (VERIF_FAILFAST=1, development aid for mutation scans): the first violation recorded
	// by any worker creates stopFile; every worker then stops enumerating (exhaustive:false).
	stopFile string
}

type prefixStop struct{}

const enumPanicIndex = int64(1) << 50

type violation struct {
	Index   int64             `json:"index"`
	Desc    json.RawMessage   `json:"desc"`
	Msg     string            `json:"msg"`
	Finding string            `json:"finding,omitempty"`
	History []json.RawMessage `json:"history,omitempty"`
	Worker  *workerRef        `json:"worker,omitempty"`
}

// workerRef identifies a case by its position in a worker's deterministic case sequence.
type workerRef struct {
	Tier    string `json:"tier"`
	Shard   int    `json:"shard"`
	NShards int    `json:"nshards"`
	Index   int64  `json:"index"`
}

type result struct {
	Evaluations int64            `json:"evaluations"`
	States      int64            `json:"states"`
	Transitions int64            `json:"transitions"`
	Traces      int64            `json:"traces"`
	Nontrivial  int64            `json:"nontrivial"`
	NtCapped    bool             `json:"nt_capped"`
	Outcomes    map[string]int64 `json:"outcomes"`
	Extra       map[string]int64 `json:"extra"`
	Samples     []interface{}    `json:"samples"`
	Violations  []violation      `json:"violations"`
	Known       map[string]known `json:"known"`
	Expired     bool             `json:"expired"`
	Notes       []string         `json:"notes"`
	Panic       string           `json:"panic,omitempty"`
}

type known struct {
	Count int64           `json:"count"`
	Desc  json.RawMessage `json:"desc"`
	Msg   string          `json:"msg"`
}

// Quick reports whether the tier is "quick".
func (c *Ctx) Quick() bool { return c.Tier != "thorough" }

// Mine advances the case counter and tells whether the case belongs to this
// shard. After the time budget has expired it answers false for everything
// and the run is reported with exhaustive:false.
func (c *Ctx) Mine() bool {
	i := c.counter
	if c.prefixMode && i > c.stopAt {
		panic(prefixStop{}) // everything that belongs to case stopAt has run
	}
	c.counter++
	if c.expired {
		return false
	}
	if i&0x3ff == 0 && !c.deadline.IsZero() && time.Now().After(c.deadline) {
		c.expired = true
		c.res.Expired = true
		return false
	}
	if i&0x3ff == 0 && c.stopFile != "" {
		if _, err := os.Stat(c.stopFile); err == nil {
			c.expired = true
			c.res.Expired = true
			return false
		}
	}
	return int(i%int64(c.NShards)) == c.Shard
}

// Tick checks the time budget from inside long searches that do not call Mine.
func (c *Ctx) Tick() bool {
	c.ticks++
	if c.ticks&0x3ff == 0 && !c.expired && !c.deadline.IsZero() && time.Now().After(c.deadline) {
		c.expired = true
		c.res.Expired = true
	}
	if c.ticks&0x3ff == 0 && !c.expired && c.stopFile != "" {
		if _, err := os.Stat(c.stopFile); err == nil {
			c.expired = true
			c.res.Expired = true
		}
	}
	return c.expired
}

// Expired reports whether the time budget was hit.
func (c *Ctx) Expired() bool { return c.expired }

// Index is the index of the case most recently offered by Mine.
func (c *Ctx) Index() int64 { return c.counter - 1 }

func (c *Ctx) Add(key string, n int64) {
	switch key {
	case "states":
		c.res.States += n
	case "transitions":
		c.res.Transitions += n
	case "traces":
		c.res.Traces += n
	case "evaluations":
		c.res.Evaluations += n
	default:
		c.res.Extra[key] += n
	}
}

// Outcome records a coarse outcome class (vacuity guard).
func (c *Ctx) Outcome(sig string) { c.outcomes[sig]++ }

// Nontrivial records that the case with this key is non-trivial by the
// check's rule; keys are deduplicated.
func (c *Ctx) Nontrivial(key string) {
	if c.ntCapped {
		return
	}
	h := fnv.New64a()
	h.Write([]byte(key))
	c.nontrivial[h.Sum64()] = struct{}{}
	if len(c.nontrivial) >= maxTrackedDistinct {
		c.ntCapped = true
	}
}

// Sample keeps a few cases written out for the evidence file.
func (c *Ctx) Sample(v interface{}) {
	if len(c.res.Samples) < 3 {
		c.res.Samples = append(c.res.Samples, v)
	}
}

func (c *Ctx) WantSample() bool { return len(c.res.Samples) < 3 }

func (c *Ctx) Note(s string) { c.res.Notes = append(c.res.Notes, s) }

// Exec runs one case. desc must be JSON-serialisable and sufficient for
// Check.Replay. A panic escaping f is a failure of that case.
func (c *Ctx) Exec(desc interface{}, f func() *Failure) {
	c.res.Evaluations++
	c.res.Traces++
	fail := Guard(f)
	if fail != nil {
		c.Report(desc, fail)
	}
	c.ring[c.ringPos%len(c.ring)] = desc
	c.ringPos++
}

// Report records a failure for the case described by desc.
func (c *Ctx) Report(desc interface{}, fail *Failure) {
	if len(fail.Msg) > 24000 {
		// cells of megabytes make unreadable (and huge) reports: keep the head and the tail
		fail.Msg = fail.Msg[:16000] + fmt.Sprintf(" ...[%d bytes left out]... ", len(fail.Msg)-20000) + fail.Msg[len(fail.Msg)-4000:]
	}
	raw, err := json.Marshal(desc)
	if err != nil {
		raw, _ = json.Marshal(fmt.Sprintf("unserialisable descriptor: %v", err))
	}
	if fail.Finding != "" && IsKnown(fail.Finding) {
		for _, id := range strings.Split(fail.Finding, ",") {
			k := c.res.Known[id]
			if k.Count == 0 {
				k.Desc = raw
				k.Msg = fail.Msg
			}
			k.Count++
			c.res.Known[id] = k
		}
		return
	}
	if c.prefixMode {
		if c.counter-1 == c.stopAt && c.stopFail == nil {
			c.stopFail = fail
		}
		return
	}
	if len(c.res.Violations) < 40 {
		v := violation{Index: c.counter - 1, Desc: raw, Msg: fail.Msg, Finding: fail.Finding,
			Worker: &workerRef{Tier: c.Tier, Shard: c.Shard, NShards: c.NShards, Index: c.counter - 1}}
		if len(c.res.Violations) < 6 {
			for i := 0; i < len(c.ring); i++ {
				if d := c.ring[(c.ringPos+i)%len(c.ring)]; d != nil {
					if b, err := json.Marshal(d); err == nil {
						v.History = append(v.History, b)
					}
				}
			}
		}
		c.res.Violations = append(c.res.Violations, v)
		if c.stopFile != "" {
			_ = os.WriteFile(c.stopFile, []byte("violation"), 0o644)
			c.expired = true
			c.res.Expired = true
		}
	}
}

// Guard runs f and converts a panic into a Failure.
func Guard(f func() *Failure) (fail *Failure) {
	defer func() {
		if r := recover(); r != nil {
			st := string(debug.Stack())
			if len(st) > 1500 {
				st = st[:1500]
			}
			fail = &Failure{Msg: fmt.Sprintf("panic: %v\n%s", r, st)}
		}
	}()
	return f()
}

// ---------------------------------------------------------------------------
// known findings

type KnownFinding struct {
	Property string `json:"property"`
	ID       string `json:"id"`
	Status   string `json:"status"` // known | fixed
	Commit   string `json:"commit,omitempty"`
	What     string `json:"what"`
}

var (
	kfOnce sync.Once
	kfList []KnownFinding
)

func verifDir() string {
	if d := os.Getenv("VERIF_DIR"); d != "" {
		return d
	}
	return "/verif"
}

func loadKnown() {
	kfOnce.Do(func() {
		path := filepath.Join(verifDir(), "known_findings.json")
		if p := os.Getenv("VERIF_KNOWN_FILE"); p != "" {
			path = p // development aid for triage only; never set by registered commands
		}
		b, err := os.ReadFile(path)
		if err != nil {
			return
		}
		var f struct {
			Findings []KnownFinding `json:"findings"`
		}
		if err := json.Unmarshal(b, &f); err != nil {
			fmt.Fprintf(os.Stderr, "known_findings.json: %v\n", err)
			os.Exit(2)
		}
		kfList = f.Findings
	})
}

// IsKnown reports whether the finding id is listed with status "known". A
// comma-separated list of ids (a case that needs several recorded defects to
// be explained) is known iff every id is.
func IsKnown(id string) bool {
	loadKnown()
	for _, one := range strings.Split(id, ",") {
		found := false
		for _, k := range kfList {
			if k.ID == one && k.Status == "known" {
				found = true
			}
		}
		if !found {
			return false
		}
	}
	return true
}

func knownWhat(id string) string {
	loadKnown()
	for _, k := range kfList {
		if k.ID == id {
			return k.What
		}
	}
	return ""
}

// ---------------------------------------------------------------------------
// worker side

func budget(tier string) time.Duration {
	if s := os.Getenv("VERIF_BUDGET_S"); s != "" {
		if n, err := strconv.Atoi(s); err == nil {
			return time.Duration(n) * time.Second
		}
	}
	if tier == "thorough" {
		return 75 * time.Minute
	}
	return 8 * time.Minute
}

func seed() int64 {
	n, _ := strconv.ParseInt(os.Getenv("VERIF_SEED"), 10, 64)
	return n
}

// WorkerMain runs one shard and writes its result as JSON to outPath.
func WorkerMain(id, tier string, shard, nshards int, outPath string) int {
	chk := Lookup(id)
	if chk == nil {
		fmt.Fprintf(os.Stderr, "unknown check %s\n", id)
		return 2
	}
	if !chk.Parallel {
		// address-space limit: a runaway allocation must kill the worker, not the box
		lim := uint64(12) << 30
		_ = syscall.Setrlimit(syscall.RLIMIT_AS, &syscall.Rlimit{Cur: lim, Max: lim})
	}
	ctx := &Ctx{Tier: tier, Seed: seed(), Shard: shard, NShards: nshards,
		deadline:   time.Now().Add(budget(tier)),
		nontrivial: map[uint64]struct{}{}, outcomes: map[string]int64{}}
	ctx.res.Extra = map[string]int64{}
	ctx.res.Known = map[string]known{}
	if os.Getenv("VERIF_FAILFAST") == "1" {
		ctx.stopFile = filepath.Join(filepath.Dir(outPath), "STOP")
	}
	setupOK := true
	if chk.Setup != nil {
		if fail := Guard(func() *Failure { chk.Setup(); return nil }); fail != nil {
			setupOK = false
			fail.Msg = "while building the frames the check starts from: " + fail.Msg
			if shard == 0 {
				ctx.Report(setupDesc{Setup: true}, fail)
			}
			ctx.outcomes["setup-panic"]++
			ctx.outcomes["setup-panic-2"]++
		}
	}
	func() {
		defer func() {
			if r := recover(); r != nil {
				st := string(debug.Stack())
				if panicInLibrary(st) {
					// the code under test panicked while the enumeration was preparing its cases: a violation,
					// replayed by re-executing this worker's sequence
					if len(st) > 3000 {
						st = st[:3000]
					}
					ctx.counter = enumPanicIndex + 1
					ctx.Report(enumDesc{EnumPanic: true}, &Failure{Msg: fmt.Sprintf("panic of the code under test in the enumeration (outside a case): %v\n%s", r, st)})
					return
				}
				ctx.res.Panic = fmt.Sprintf("%v\n%s", r, st)
			}
		}()
		if setupOK {
			chk.Run(ctx)
		}
	}()
	ctx.res.Nontrivial = int64(len(ctx.nontrivial))
	ctx.res.NtCapped = ctx.ntCapped
	ctx.res.Outcomes = ctx.outcomes
	b, err := json.Marshal(ctx.res)
	if err != nil {
		fmt.Fprintf(os.Stderr, "marshal result: %v\n", err)
		return 2
	}
	if err := os.WriteFile(outPath, b, 0o644); err != nil {
		fmt.Fprintf(os.Stderr, "write result: %v\n", err)
		return 2
	}
	return 0
}

// ---------------------------------------------------------------------------
// parent side

type Evidence struct {
	PropertyID  string                 `json:"property_id"`
	Tier        string                 `json:"tier"`
	Seed        int64                  `json:"seed"`
	Level       string                 `json:"level"`
	Coverage    map[string]interface{} `json:"coverage"`
	Assumptions []string               `json:"assumptions"`
	WallS       float64                `json:"wall_s"`
	Violations  int                    `json:"violations"`
}

func nworkers(chk *Check) int {
	if chk.Workers > 0 {
		return chk.Workers
	}
	if s := os.Getenv("VERIF_WORKERS"); s != "" {
		if n, err := strconv.Atoi(s); err == nil && n > 0 {
			return n
		}
	}
	return 16
}

// RunMain is the entry point of `qfmc run <id> <tier>`.
func RunMain(self, id, tier string) int {
	start := time.Now()
	chk := Lookup(id)
	if chk == nil {
		fmt.Fprintf(os.Stderr, "unknown check %s\n", id)
		return 2
	}
	vd := verifDir()
	tmp, err := os.MkdirTemp(filepath.Join(vd, "build"), "run-"+id+"-")
	if err != nil {
		fmt.Fprintf(os.Stderr, "mkdtemp: %v\n", err)
		return 2
	}
	defer os.RemoveAll(tmp)

	n := nworkers(chk)
	type wres struct {
		res  result
		err  error
		logs string
	}
	results := make([]wres, n)
	var wg sync.WaitGroup
	for i := 0; i < n; i++ {
		wg.Add(1)
		go func(i int) {
			defer wg.Done()
			out := filepath.Join(tmp, fmt.Sprintf("w%d.json", i))
			cmd := exec.Command(self, "worker", id, tier, strconv.Itoa(i), strconv.Itoa(n), out)
			cmd.Env = append(os.Environ(), "VERIF_DIR="+vd)
			if !chk.Parallel {
				cmd.Env = append(cmd.Env, "GOMAXPROCS=1")
			}
			var sb strings.Builder
			cmd.Stdout = &sb
			cmd.Stderr = &sb
			err := cmd.Run()
			results[i].logs = sb.String()
			if err != nil {
				results[i].err = fmt.Errorf("worker %d: %v\n%s", i, err, tail(sb.String(), 3000))
				return
			}
			b, err := os.ReadFile(out)
			if err != nil {
				results[i].err = err
				return
			}
			if err := json.Unmarshal(b, &results[i].res); err != nil {
				results[i].err = err
			}
		}(i)
	}
	wg.Wait()

	// merge
	var m result
	m.Extra = map[string]int64{}
	m.Outcomes = map[string]int64{}
	m.Known = map[string]known{}
	for i := range results {
		if results[i].err != nil {
			fmt.Printf("HARNESS-ERROR property=%s %v\n", id, results[i].err)
			return 2
		}
		r := results[i].res
		if r.Panic != "" {
			fmt.Printf("HARNESS-ERROR property=%s worker %d panicked outside a case: %s\n", id, i, r.Panic)
			return 2
		}
		m.Evaluations += r.Evaluations
		m.States += r.States
		m.Transitions += r.Transitions
		m.Traces += r.Traces
		m.Nontrivial += r.Nontrivial
		m.NtCapped = m.NtCapped || r.NtCapped
		m.Expired = m.Expired || r.Expired
		for k, v := range r.Extra {
			m.Extra[k] += v
		}
		for k, v := range r.Outcomes {
			m.Outcomes[k] += v
		}
		for k, v := range r.Known {
			e := m.Known[k]
			if e.Count == 0 {
				e.Desc, e.Msg = v.Desc, v.Msg
			}
			e.Count += v.Count
			m.Known[k] = e
		}
		for _, s := range r.Samples {
			if len(m.Samples) < 4 {
				m.Samples = append(m.Samples, s)
			}
		}
		m.Violations = append(m.Violations, r.Violations...)
		for _, nt := range r.Notes {
			if len(m.Notes) < 20 {
				m.Notes = append(m.Notes, nt)
			}
		}
	}
	sort.Slice(m.Violations, func(a, b int) bool { return m.Violations[a].Index < m.Violations[b].Index })

	exit := 0
	nviol := 0
	var lines []string
	// confirm the first (smallest) violations by replay before believing them; a violation that
	// does not show again in fresh processes (hash-seed dependent path) is skipped in favour of the
	// next one, and only if none can be confirmed is the run a harness error
	reported := 0
	var unconfirmed []string
	for _, v := range m.Violations {
		if reported >= 3 || len(unconfirmed) >= 12 {
			break
		}
		path := writeReplay(vd, id, v)
		ok, detail := confirm(self, path)
		if !ok {
			unconfirmed = append(unconfirmed, fmt.Sprintf("%s: %s", path, detail))
			continue
		}
		lines = append(lines, fmt.Sprintf("VIOLATION property=%s replay=%s", id, path))
		lines = append(lines, "  "+firstLines(v.Msg, 12))
		if detail != "" {
			lines = append(lines, "  note: "+detail)
		}
		reported++
		nviol++
		exit = 1
	}
	if reported == 0 && len(unconfirmed) > 0 {
		fmt.Printf("HARNESS-ERROR property=%s %d violation(s) seen by the explorer did not reproduce on replay, e.g. %s\n", id, len(m.Violations), unconfirmed[0])
		return 2
	}
	nviol = len(m.Violations)

	var kids []string
	for k := range m.Known {
		kids = append(kids, k)
	}
	sort.Strings(kids)
	knownSeen := map[string]interface{}{}
	for _, k := range kids {
		fmt.Printf("KNOWN-FINDING: property=%s %s: %s (cases: %d)\n", id, k, knownWhat(k), m.Known[k].Count)
		knownSeen[k] = map[string]interface{}{"cases": m.Known[k].Count, "example": m.Known[k].Desc, "what": knownWhat(k)}
	}

	// vacuity guard
	if exit == 0 && !m.Expired && len(m.Outcomes) < 2 {
		fmt.Printf("HARNESS-ERROR property=%s vacuous exploration: %d distinct outcome class(es)\n", id, len(m.Outcomes))
		return 2
	}

	cov := map[string]interface{}{
		"evaluations":                   m.Evaluations,
		"distinct_nontrivial":           m.Nontrivial,
		"rule":                          chk.Rule,
		"samples":                       m.Samples,
		"states":                        m.States,
		"transitions":                   m.Transitions,
		"traces_validated_against_impl": m.Traces,
		"exhaustive":                    !m.Expired,
		"distinct_outcomes":             len(m.Outcomes),
		"outcome_classes":               m.Outcomes,
		"bound_completed":               chk.Bound[tier],
		"workers":                       n,
		"known_findings_seen":           knownSeen,
	}
	if m.NtCapped {
		cov["distinct_nontrivial_note"] = "distinct tracking capped per worker; the number is a lower bound"
	}
	if m.Expired {
		cov["bound_completed"] = "time budget hit before the enumeration finished; exhaustive only below the cap (see counters)"
	}
	for k, v := range m.Extra {
		cov[k] = v
	}
	if len(m.Notes) > 0 {
		cov["notes"] = m.Notes
	}
	if m.States == 0 {
		cov["states"] = m.Evaluations
	}
	if m.Transitions == 0 {
		cov["transitions"] = m.Evaluations
	}
	ev := Evidence{PropertyID: id, Tier: tier, Seed: seed(), Level: chk.Level, Coverage: cov,
		Assumptions: chk.Assumptions, WallS: time.Since(start).Seconds(), Violations: nviol}
	b, _ := json.MarshalIndent(ev, "", " ")
	if os.Getenv("VERIF_NO_EVIDENCE") == "" {
		if err := os.MkdirAll(filepath.Join(vd, "evidence"), 0o755); err == nil {
			_ = os.WriteFile(filepath.Join(vd, "evidence", id+".json"), b, 0o644)
		}
	}

	for _, l := range lines {
		fmt.Println(l)
	}
	fmt.Printf("%s %s: evaluations=%d nontrivial=%d states=%d transitions=%d outcomes=%d exhaustive=%v violations=%d wall=%.1fs\n",
		id, tier, m.Evaluations, m.Nontrivial, cov["states"], cov["transitions"], len(m.Outcomes), !m.Expired, nviol, time.Since(start).Seconds())
	return exit
}

func tail(s string, n int) string {
	if len(s) > n {
		return s[len(s)-n:]
	}
	return s
}

func firstLines(s string, n int) string {
	l := strings.Split(s, "\n")
	if len(l) > n {
		l = l[:n]
	}
	return strings.Join(l, "\n  ")
}

type replayFile struct {
	Property string          `json:"property"`
	Msg      string          `json:"msg"`
	Finding  string          `json:"finding,omitempty"`
	Desc     json.RawMessage `json:"desc"`
	// History: the cases the same worker executed just before (oldest first). Only used when the
	// case passes on its own: it is then replayed after them.
	History []json.RawMessage `json:"history,omitempty"`
	// Worker: where the case sits in its worker's case sequence. Last resort when the case passes
	// alone and after History: the whole sequence up to it is re-executed in a fresh process.
	Worker *workerRef `json:"worker,omitempty"`
}

func writeReplay(vd, id string, v violation) string {
	sum := sha256.Sum256(v.Desc)
	dir := filepath.Join(vd, "replays")
	_ = os.MkdirAll(dir, 0o755)
	path := filepath.Join(dir, id+"-"+hex.EncodeToString(sum[:6])+".json")
	b, _ := json.MarshalIndent(replayFile{Property: id, Msg: v.Msg, Finding: v.Finding, Desc: v.Desc, History: v.History, Worker: v.Worker}, "", " ")
	_ = os.WriteFile(path, b, 0o644)
	return path
}

// confirm replays the record in fresh processes. A deterministic case fails in the first two
// replays. Paths through Distinct/GroupBy produce frames whose row order depends on the
// library's per-process hash seed, so a failure found by the explorer may need another seed to
// show again: up to 6 replays are made and at least one must fail (0 of 6 is a harness error).
func confirm(self, path string) (bool, string) {
	fails := 0
	last := ""
	for i := 0; i < 6; i++ {
		cmd := exec.Command(self, "replay", path)
		cmd.Env = append(os.Environ(), "VERIF_DIR="+verifDir())
		out, err := cmd.CombinedOutput()
		ee, isExit := err.(*exec.ExitError)
		switch {
		case err == nil:
			last = fmt.Sprintf("replay %d: case passes", i)
		case isExit && ee.ExitCode() == 1:
			fails++
		default:
			return false, fmt.Sprintf("replay %d: err=%v out=%s", i, err, tail(string(out), 500))
		}
		if fails >= 2 || (i >= 1 && fails == i+1) {
			return true, ""
		}
	}
	if fails > 0 {
		return true, fmt.Sprintf("reproduced in %d of 6 fresh processes (depends on the per-process hash seed)", fails)
	}
	return false, last
}

// ReplayMain re-executes one replay record: exit 1 if the failure reproduces,
// 0 if the case passes.
func ReplayMain(path string) int {
	b, err := os.ReadFile(path)
	if err != nil {
		fmt.Fprintln(os.Stderr, err)
		return 2
	}
	var rf replayFile
	if err := json.Unmarshal(b, &rf); err != nil {
		fmt.Fprintln(os.Stderr, err)
		return 2
	}
	chk := Lookup(rf.Property)
	if chk == nil || chk.Replay == nil {
		fmt.Fprintf(os.Stderr, "no replay for %s\n", rf.Property)
		return 2
	}
	var sd setupDesc
	if json.Unmarshal(rf.Desc, &sd) == nil && sd.Setup && chk.Setup != nil {
		fail := Guard(func() *Failure { chk.Setup(); return nil })
		if fail == nil {
			fmt.Printf("replay %s: setup passes\n", path)
			return 0
		}
		fmt.Printf("replay %s: FAILS\n%s\n", path, fail.Msg)
		return 1
	}
	var fail *Failure
	var ed enumDesc
	if json.Unmarshal(rf.Desc, &ed) == nil && ed.EnumPanic && rf.Worker != nil {
		return prefixReplay(path, chk, rf)
	}
	if os.Getenv("VERIF_REPLAY_PREFIX") == "1" && rf.Worker != nil {
		return prefixReplay(path, chk, rf)
	}
	if os.Getenv("VERIF_REPLAY_HISTORY") == "1" {
		// history mode (fresh process): the cases executed before it in the worker, then the case
		for _, h := range rf.History {
			h := h
			_ = Guard(func() *Failure { return chk.Replay(h) })
		}
		if fail = Guard(func() *Failure { return chk.Replay(rf.Desc) }); fail != nil {
			fail.Msg = fmt.Sprintf("(passes when run alone, fails after the %d cases executed before it in the same process: state leaks between calls)\n", len(rf.History)) + fail.Msg
		}
		if fail == nil && rf.Worker != nil {
			// still passes: re-execute the worker's whole case sequence up to it, in another fresh process
			if self, err := os.Executable(); err == nil {
				cmd := exec.Command(self, "replay", path)
				cmd.Env = append(os.Environ(), "VERIF_REPLAY_PREFIX=1")
				out, err := cmd.CombinedOutput()
				fmt.Print(string(out))
				if ee, ok := err.(*exec.ExitError); ok {
					return ee.ExitCode()
				}
				return 0
			}
		}
	} else {
		fail = Guard(func() *Failure { return chk.Replay(rf.Desc) })
		if fail == nil && (len(rf.History) > 0 || rf.Worker != nil) {
			// passes alone: replay it as the last step of the short history it was found in, in a
			// fresh process (running it alone first may already have changed the leaking state)
			if self, err := os.Executable(); err == nil {
				cmd := exec.Command(self, "replay", path)
				cmd.Env = append(os.Environ(), "VERIF_REPLAY_HISTORY=1")
				out, err := cmd.CombinedOutput()
				fmt.Print(string(out))
				if ee, ok := err.(*exec.ExitError); ok {
					return ee.ExitCode()
				}
				return 0
			}
		}
	}
	if fail == nil {
		fmt.Printf("replay %s: case passes\n", path)
		return 0
	}
	fmt.Printf("replay %s: FAILS\n%s\n", path, fail.Msg)
	if fail.Finding != "" {
		fmt.Printf("finding signature: %s\n", fail.Finding)
	}
	return 1
}

// prefixReplay re-executes, in this (fresh) process, the deterministic case sequence of the worker
// that found the failure, up to and including the failing case: exit 1 if that case fails again.
func prefixReplay(path string, chk *Check, rf replayFile) int {
	w := rf.Worker
	ctx := &Ctx{Tier: w.Tier, Seed: seed(), Shard: w.Shard, NShards: w.NShards,
		nontrivial: map[uint64]struct{}{}, outcomes: map[string]int64{}, prefixMode: true, stopAt: w.Index}
	ctx.res.Extra = map[string]int64{}
	ctx.res.Known = map[string]known{}
	ctx.ntCapped = true
	if chk.Setup != nil {
		if fail := Guard(func() *Failure { chk.Setup(); return nil }); fail != nil {
			fmt.Printf("replay %s: FAILS\n%s\n", path, fail.Msg)
			return 1
		}
	}
	func() {
		defer func() {
			if r := recover(); r != nil {
				if _, ok := r.(prefixStop); !ok {
					ctx.stopFail = &Failure{Msg: fmt.Sprintf("panic outside a case while re-executing the worker's sequence: %v", r)}
				}
			}
		}()
		chk.Run(ctx)
	}()
	if ctx.stopFail == nil {
		fmt.Printf("replay %s: case passes (alone, after its recent history, and as case %d of worker %d/%d re-executed from the start)\n", path, w.Index, w.Shard, w.NShards)
		return 0
	}
	fmt.Printf("replay %s: FAILS\n(passes when run alone; fails when the case sequence of worker %d/%d is re-executed from its start up to this case, no. %d, in a fresh process: state leaks between calls)\n%s\n",
		path, w.Shard, w.NShards, w.Index, ctx.stopFail.Msg)
	return 1
}
