package checks

import (
	"fmt"
	"strings"

	"github.com/tobgu/qframe"
	"github.com/tobgu/qframe/config/eval"
	"github.com/tobgu/qframe/config/groupby"
	"github.com/tobgu/qframe/types"

	"verif/harness/core"
	"verif/harness/model"
)

// C07 — Eval computes the expression's value per row and leaves no trace of temporaries.

type evalCase struct {
	Shape int        `json:"shape"`
	Dst   string     `json:"dst"`
	Expr  model.Expr `json:"expr"`
	Style string     `json:"style"` // expr | raw
	User  bool       `json:"user_ctx"`
	// Battery: the returned frame also goes through the latent-state battery (battery.go)
	Battery bool `json:"battery,omitempty"`
}

func c07Base() model.Frame {
	N := model.Null()
	return model.Frame{N: 4, Cols: []model.Col{
		{Name: "i", Kind: model.Int, Cells: []model.Cell{model.I(3), model.I(0), model.I(-7), model.I(12)}},
		{Name: "i2", Kind: model.Int, Cells: []model.Cell{model.I(2), model.I(-3), model.I(5), model.I(1)}}, // no zero: used as divisor
		{Name: "f", Kind: model.Float, Cells: []model.Cell{model.F(1.5), model.F(-0.25), model.F(4), model.F(8)}},
		{Name: "b", Kind: model.Bool, Cells: []model.Cell{model.B(true), model.B(false), model.B(false), model.B(true)}},
		// "C\u00e4d": byte length and rune count differ
		{Name: "s", Kind: model.String, Cells: []model.Cell{model.S("ab"), N, model.S(""), model.S("C\u00e4d")}},
		{Name: "e", Kind: model.Enum, EnumVals: []string{"lo", "h\u00ef"}, Cells: []model.Cell{model.S("h\u00ef"), N, model.S("lo"), model.S("lo")}},
		// a user column that looks like a temporary of the evaluator
		{Name: "colcol-temp-0", Kind: model.Int, Cells: []model.Cell{model.I(100), model.I(200), model.I(300), model.I(400)}},
	}}
}

type c07Env struct {
	real []qframe.QFrame
	obs  []model.Frame
	user *eval.Context
}

var c07env *c07Env

func c07Env_() *c07Env {
	if c07env == nil {
		base := c07Base()
		e := &c07Env{user: model.UserCtx()}
		for s := 0; s < model.NShapes; s++ {
			q := model.BuildShape(base, s)
			o := model.ObserveAs(q, base)
			o.AdoptMeta(base)
			e.real = append(e.real, q)
			e.obs = append(e.obs, o)
		}
		// degenerate variants (shape numbers NShapes..): zero rows, one row, one row left of a sorted frame
		// ... a frame whose columns all moved one position down (an earlier column was dropped), and a
		// frame that already went through an Eval needing temporaries (its result column "ev0" exists)
		withFirst := base.Clone()
		withFirst.Cols = append([]model.Col{{Name: "aaa", Kind: model.Int, Cells: []model.Cell{model.I(9), model.I(9), model.I(9), model.I(9)}}}, withFirst.Cols...)
		for _, q := range []qframe.QFrame{model.Build(base.Rows(nil)), model.Build(base.Rows([]int{2})), model.Build(base).Sort(qframe.Order{Column: "i"}).Slice(3, 4),
			model.Build(withFirst).Drop("aaa"),
			model.Build(base).Eval("ev0", qframe.Expr("+", qframe.Expr("abs", types.ColumnName("i")), 1)),
			// 70 rows (the base rows in a mixed order, repeated): beyond any blocked or unrolled loop
			model.Build(base.Rows(c07BigRows())), model.BuildShape(base.Rows(c07BigRows()), model.ShapeSparsePerm),
			// a parent whose last step added a column (Copy): two Evals on this one object (see runEvalCase)
			model.Build(base).Copy("cp", "i").Copy("cq", "f"),
			// the result of an aggregation whose result column got its name through As (every column a key: one row per row)
			model.Build(base).GroupBy(groupby.Columns("i", "i2", "f", "b", "s", "e"), groupby.Null(true)).Aggregate(qframe.Aggregation{Fn: "count", Column: "i", As: "ev0"}).Sort(qframe.Order{Column: "i"})} {
			o := model.Observe(q)
			o.AdoptMeta(base)
			e.real = append(e.real, q)
			e.obs = append(e.obs, o)
		}
		c07env = e
	}
	return c07env
}

func c07NShapes() int { return len(c07Env_().real) }

func c07ShapeName(s int) string {
	if s < model.NShapes {
		return model.ShapeNames[s]
	}
	return []string{"zero-rows", "one-row", "one-row-of-a-sorted-frame", "first-column-dropped", "after-an-eval", "70-rows", "70-rows-sparseperm", "after-two-copies", "aggregated-with-As"}[s-model.NShapes]
}

func c07BigRows() []int {
	ix := make([]int, 70)
	for r := range ix {
		ix[r] = (r*3 + r/4) % 4
	}
	return ix
}

func runEvalCase(c evalCase) *core.Failure {
	env := c07Env_()
	if c.Shape >= len(env.real) {
		return core.Failf("bad shape")
	}
	qf, in := env.real[c.Shape], env.obs[c.Shape]
	if in.Err {
		return core.Failf("input frame could not be built: %s", in.ErrText)
	}
	before := in.String()
	var fns []eval.ConfigFunc
	if c.User {
		fns = append(fns, eval.EvalContext(env.user))
	}
	expr := model.BuildExpr(c.Expr, c.Style)
	// on the parent made by Copy: an earlier Eval result of the same parent object is kept and looked at again afterwards
	var earlier qframe.QFrame
	earlierObs := ""
	if c07ShapeName(c.Shape) == "after-two-copies" {
		earlier = qf.Eval("zfirst", qframe.Val(types.ColumnName("i2")))
		earlierObs = model.Observe(earlier).String() + fmt.Sprint(earlier.ColumnNames())
	}
	if c.Style == "expr" {
		// the same expression OBJECT is first evaluated under the other context (its result is dropped):
		// an expression is a value, evaluating it must not bind it to a context
		if c.User {
			_ = qf.Eval(c.Dst, expr)
		} else {
			_ = qf.Eval(c.Dst, expr, eval.EvalContext(env.user))
		}
	}
	evalRes := qf.Eval(c.Dst, expr, fns...)
	got := model.Observe(evalRes)
	if earlierObs != "" {
		if now := model.Observe(earlier).String() + fmt.Sprint(earlier.ColumnNames()); now != earlierObs {
			return core.Failf("Eval(%q, %s) on a parent changed the result of an EARLIER Eval on the same parent:\n before: %s\n  after: %s", c.Dst, c.Expr, earlierObs, now)
		}
	}
	want := model.Eval(in, c.Dst, c.Expr, c.User)
	if d := model.Diff(want, got); d != "" {
		return core.Failf("Eval(%q, %s) style=%s user_ctx=%v on %s frame: %s\n input: %s\n  want: %s\n   got: %s",
			c.Dst, c.Expr, c.Style, c.User, c07ShapeName(c.Shape), d, in, want, got)
	}
	if c.Battery && !got.Err {
		what := fmt.Sprintf("the frame returned by Eval(%q, %s) on the %s frame", c.Dst, c.Expr, c07ShapeName(c.Shape))
		decl := declOf(in)
		if c.Dst == "e" {
			decl = nil
		}
		if f := latentBattery(evalRes, decl, what); f != nil {
			return f
		}
		if f := bookkeepingBattery(evalRes, what); f != nil {
			return f
		}
	}
	after := model.Observe(qf)
	after.AdoptMeta(in)
	if after.String() != before {
		return core.Failf("Eval changed its receiver")
	}
	return nil
}

// constPairExprs: every binary operator over every pair of constants (same and different types), bare and as a
// sub-expression of a column expression; unary functions on every constant.
func constPairExprs() []model.Expr {
	consts := []model.Expr{model.IntE(6), model.FloatE(2.5), model.BoolE(true), model.StrE("a"), model.NilE()}
	var out []model.Expr
	for _, op := range []string{"+", "-", "*", "/", "&", "|", "!=", "nand", "sub2", "nope"} {
		for _, a := range consts {
			for _, b := range consts {
				e := model.Call(op, a, b)
				out = append(out, e, model.Call("+", model.ColE("i"), e), model.Call("+", e, model.ColE("f")), model.Call("+", model.ColE("s"), e),
					model.Call("&", e, model.ColE("b")), model.Call("str", e), model.Call(op, e, b), model.Call(op, a, e))
			}
		}
	}
	for _, op := range []string{"abs", "neg", "int", "float", "bool", "str", "len", "upper", "lower", "!", "fill", "isnil", "lenor", "nope"} {
		for _, a := range consts {
			out = append(out, model.Call(op, a), model.Call("str", model.Call(op, a)))
		}
	}
	return out
}

// typed expression enumeration ------------------------------------------------

type exprAlphabet struct {
	leaves map[model.Kind][]model.Expr
	unary  map[model.Kind][]struct {
		op  string
		arg model.Kind
	}
	binary map[model.Kind][]string
}

func c07Alphabet(reduced bool) exprAlphabet {
	a := exprAlphabet{
		leaves: map[model.Kind][]model.Expr{
			model.Int:    {model.ColE("i"), model.ColE("i2"), model.IntE(2), model.IntE(10)},
			model.Float:  {model.ColE("f"), model.FloatE(2.5)},
			model.Bool:   {model.ColE("b"), model.BoolE(true)},
			model.String: {model.ColE("s"), model.StrE("x"), model.StrE(""), model.NilE()},
		},
		unary: map[model.Kind][]struct {
			op  string
			arg model.Kind
		}{
			model.Int:    {{"abs", model.Int}, {"neg", model.Int}, {"int", model.Float}, {"int", model.Bool}, {"len", model.String}, {"lenor", model.String}},
			model.Float:  {{"abs", model.Float}, {"float", model.Int}},
			model.Bool:   {{"!", model.Bool}, {"bool", model.Int}, {"isnil", model.String}},
			model.String: {{"str", model.Int}, {"str", model.Float}, {"str", model.Bool}, {"str", model.String}, {"upper", model.String}, {"lower", model.String}, {"fill", model.String}},
		},
		binary: map[model.Kind][]string{
			model.Int:    {"+", "-", "*", "/", "sub2"},
			model.Float:  {"+", "-", "*", "/"},
			model.Bool:   {"&", "|", "!=", "nand"},
			model.String: {"+"},
		},
	}
	if reduced {
		a.leaves = map[model.Kind][]model.Expr{
			model.Int:    {model.ColE("i"), model.IntE(10)},
			model.Float:  {model.ColE("f")},
			model.Bool:   {model.ColE("b")},
			model.String: {model.ColE("s"), model.StrE("x")},
		}
		a.unary = map[model.Kind][]struct {
			op  string
			arg model.Kind
		}{
			model.Int:    {{"abs", model.Int}, {"len", model.String}},
			model.Float:  {{"float", model.Int}},
			model.Bool:   {{"!", model.Bool}},
			model.String: {{"str", model.Int}, {"upper", model.String}},
		}
		a.binary = map[model.Kind][]string{
			model.Int:    {"-", "/"},
			model.Float:  {"-"},
			model.Bool:   {"&"},
			model.String: {"+"},
		}
	}
	return a
}

var allKinds = []model.Kind{model.Int, model.Float, model.Bool, model.String}

// isDivisorSafe: the right operand of an int "/" must not evaluate to zero on any row.
func divisorSafe(e model.Expr, f model.Frame) bool {
	if e.Kind == "call" && e.Op == "/" && len(e.Args) >= 2 {
		for _, a := range e.Args[1:] {
			g := model.Eval(f, "zz", a, true)
			if g.Err {
				continue
			}
			c, _, _ := g.Col("zz")
			if c.Kind == model.Int {
				for _, x := range c.Cells {
					if x.I == 0 {
						return false
					}
				}
			}
		}
	}
	for _, a := range e.Args {
		if !divisorSafe(a, f) {
			return false
		}
	}
	return true
}

// typedExprs returns, per kind, all well-typed expressions of depth <= d.
func typedExprs(a exprAlphabet, d int, f model.Frame) map[model.Kind][]model.Expr {
	cur := map[model.Kind][]model.Expr{}
	for k, l := range a.leaves {
		cur[k] = append([]model.Expr(nil), l...)
	}
	for depth := 1; depth <= d; depth++ {
		next := map[model.Kind][]model.Expr{}
		for _, k := range allKinds {
			next[k] = append([]model.Expr(nil), a.leaves[k]...)
			for _, u := range a.unary[k] {
				for _, arg := range cur[u.arg] {
					next[k] = append(next[k], model.Call(u.op, arg))
				}
			}
			for _, op := range a.binary[k] {
				for _, x := range cur[k] {
					for _, y := range cur[k] {
						e := model.Call(op, x, y)
						if op == "/" && k == model.Int && !divisorSafe(e, f) {
							continue
						}
						next[k] = append(next[k], e)
					}
				}
			}
		}
		cur = next
	}
	return cur
}

func c07Run(ctx *core.Ctx) {
	env := c07Env_()
	in0 := env.obs[0]
	exec := func(c evalCase) {
		ctx.Exec(c, func() *core.Failure { return runEvalCase(c) })
		want := model.Eval(in0, c.Dst, c.Expr, c.User)
		if want.Err {
			ctx.Outcome("model-error")
		} else {
			ctx.Outcome(fmt.Sprintf("ok-depth%d", c.Expr.Depth()))
			ctx.Nontrivial(fmt.Sprintf("%s|%s|%s|%v", c.Dst, c.Expr, c.Style, c.User))
		}
		if ctx.WantSample() && ctx.Index()%3001 == 9 {
			ctx.Sample(map[string]interface{}{"dst": c.Dst, "expr": c.Expr.String(), "style": c.Style, "user_ctx": c.User, "shape": c07ShapeName(c.Shape)})
		}
	}
	dsts := []string{"new", "i", "s", "e", "ev0"}
	runAll := func(exprs []model.Expr, label string, allVariants bool) {
		for _, e := range exprs {
			for di, dst := range dsts {
				for _, style := range []string{"expr", "raw", "val"} {
					for _, user := range []bool{true, false} {
						if !allVariants && (di+len(style))%2 == 0 && !user {
							continue
						}
						if !ctx.Mine() {
							continue
						}
						shape := int(ctx.Index() % int64(c07NShapes()))
						exec(evalCase{Shape: shape, Dst: dst, Expr: e, Style: style, User: user})
					}
				}
			}
		}
	}
	full := c07Alphabet(false)
	// all well-typed trees of depth <= 2 over the full alphabet
	byKind := typedExprs(full, 2, in0)
	var wellTyped []model.Expr
	for _, k := range allKinds {
		wellTyped = append(wellTyped, byKind[k]...)
	}
	// plus bare enum column and enum operations
	wellTyped = append(wellTyped, model.ColE("e"), model.Call("upper", model.ColE("e")), model.Call("+", model.ColE("e"), model.ColE("e")),
		model.Call("+", model.Call("str", model.ColE("e")), model.ColE("s")), model.Call("len", model.ColE("e")),
		model.Call("fill", model.ColE("e")), model.Call("isnil", model.ColE("e")), model.Call("lenor", model.ColE("e")),
		model.Call("+", model.Call("fill", model.ColE("e")), model.StrE("!")), model.Call("+", model.ColE("e"), model.StrE("")), model.Call("+", model.StrE(""), model.ColE("e")),
		model.ColE("colcol-temp-0"), model.Call("+", model.ColE("colcol-temp-0"), model.ColE("i")), model.Call("+", model.ColE("i"), model.Call("abs", model.ColE("colcol-temp-0"))))
	runAll(wellTyped, "typed-depth2", ctx.Quick() == false)
	// latent state: the result of every well-typed tree (into a new and into an existing column) through the battery
	for ei, e := range wellTyped {
		if e.Depth() > 1 && ei%97 != 0 {
			continue // every tree of depth <= 1, every 97th of the deeper ones
		}
		for di, dst := range []string{"new", "i", "ev0"} {
			if ctx.Mine() {
				exec(evalCase{Shape: (ei + di) % c07NShapes(), Dst: dst, Expr: e, Style: "expr", User: ei%2 == 0, Battery: true})
			}
		}
	}
	// string constants that look like something else (a variable, a placeholder, a column or function name, a
	// number, a keyword): a constant denotes itself in every row
	var literal []model.Expr
	for _, c := range []string{"$USD ", "$1", "$$", "$", "$s", "s", "i", "'s'", `"s"`, "+", "abs", "%d", "%s", "{0}", "null", "NULL", "nil", "true", "1", "1.5", "NaN", " ", "\x00", "ä", "a$", "@s", "#s", "${s}", "\\s", "s,i", "*"} {
		literal = append(literal, model.StrE(c), model.Call("+", model.ColE("s"), model.StrE(c)), model.Call("+", model.StrE(c), model.ColE("s")),
			model.Call("+", model.StrE(c), model.StrE("x")), model.Call("len", model.StrE(c)), model.Call("+", model.ColE("e"), model.StrE(c)),
			model.Call("upper", model.StrE(c)), model.Call("+", model.ColE("s"), model.StrE(c), model.ColE("s")), model.Call("+", model.StrE(c), model.StrE(c), model.StrE(c)),
			model.Call("+", model.Call("str", model.ColE("i")), model.StrE(c)), model.Call("lenor", model.StrE(c)), model.Call("fill", model.StrE(c)))
	}
	runAll(literal, "literal-constants", false)
	runAll(constPairExprs(), "constant-pairs", false)
	// the destination named inside the expression itself: a column evaluated onto itself (valid: unchanged), and a
	// name that exists nowhere used as destination AND operand (an unknown column, whatever the destination is called)
	for _, name := range []string{"i", "f", "b", "s", "e", "nosuchcol", "new", "colcol-temp-0"} {
		for _, e := range []model.Expr{model.ColE(name), model.Call("abs", model.ColE(name)), model.Call("+", model.ColE(name), model.ColE(name)),
			model.Call("+", model.ColE(name), model.ColE("i")), model.Call("+", model.ColE("i"), model.ColE(name)), model.Call("str", model.ColE(name)),
			model.Call("+", model.Call("abs", model.ColE(name)), model.IntE(1))} {
			for _, style := range []string{"expr", "raw", "val"} {
				for _, user := range []bool{true, false} {
					for shape := 0; shape < c07NShapes(); shape++ {
						if ctx.Mine() {
							exec(evalCase{Shape: shape, Dst: name, Expr: e, Style: style, User: user})
						}
					}
				}
			}
		}
	}
	if !ctx.Quick() {
		red := typedExprs(c07Alphabet(true), 3, in0)
		var d3 []model.Expr
		for _, k := range allKinds {
			for _, e := range red[k] {
				if e.Depth() == 3 {
					d3 = append(d3, e)
				}
			}
		}
		runAll(d3, "typed-depth3", false)
	}
	// n-ary calls (left fold made visible by - and /), 3 and 4 arguments, arguments of depth <= 1
	d1 := typedExprs(full, 1, in0)
	nary := func(k model.Kind, ops []string, pool []model.Expr) {
		for _, op := range ops {
			for _, a := range pool {
				for _, b := range pool {
					for _, c := range pool {
						e3 := model.Call(op, a, b, c)
						if (op != "/" || k != model.Int || divisorSafe(e3, in0)) && ctx.Mine() {
							exec(evalCase{Shape: int(ctx.Index() % int64(model.NShapes)), Dst: "new", Expr: e3, Style: "expr", User: true})
						}
						if a.Depth()+b.Depth()+c.Depth() > 0 {
							continue
						}
						for _, d := range pool {
							if d.Depth() > 0 {
								continue
							}
							e4 := model.Call(op, a, b, c, d)
							if (op != "/" || k != model.Int || divisorSafe(e4, in0)) && ctx.Mine() {
								exec(evalCase{Shape: int(ctx.Index() % int64(model.NShapes)), Dst: "i", Expr: e4, Style: "expr", User: false})
							}
						}
					}
				}
			}
		}
	}
	thin := func(p []model.Expr, step int) []model.Expr {
		if !ctx.Quick() || step <= 1 {
			return p
		}
		var out []model.Expr
		for i, e := range p {
			if e.Depth() == 0 || i%step == 0 {
				out = append(out, e)
			}
		}
		return out
	}
	nary(model.Int, []string{"-", "/", "+"}, thin(d1[model.Int], 6))
	nary(model.Float, []string{"-", "/"}, thin(d1[model.Float], 2))
	nary(model.Bool, []string{"nand", "!="}, thin(d1[model.Bool], 2))
	nary(model.String, []string{"+"}, thin(d1[model.String], 2))

	// invalid expressions: every depth<=1 well-typed tree mutated at one place, and a sample of depth-2 trees
	var invalid []model.Expr
	mutate := func(e model.Expr) {
		if e.Kind != "call" {
			return
		}
		m := e
		m.Op = "nosuchfn"
		invalid = append(invalid, m)
		m = e
		m.BadOp = true
		invalid = append(invalid, m)
		for ai := range e.Args {
			for _, repl := range []model.Expr{model.ColE("nosuchcol"), model.ColE("f"), model.ColE("i"), model.ColE("b"), model.ColE("s"), model.ColE("e"), model.FloatE(1.5), model.IntE(1), model.StrE("q")} {
				m := e
				m.Args = append([]model.Expr(nil), e.Args...)
				m.Args[ai] = repl
				invalid = append(invalid, m)
			}
		}
		if len(e.Args) == 2 {
			m := e
			m.Args = nil // zero arguments
			invalid = append(invalid, m)
		}
	}
	for _, k := range allKinds {
		for _, e := range d1[k] {
			mutate(e)
		}
		for i, e := range byKind[k] {
			if e.Depth() == 2 && i%17 == 0 {
				mutate(e)
				// mutate inside: replace the first nested call's operator
				for ai, a := range e.Args {
					if a.Kind == "call" {
						m := e
						m.Args = append([]model.Expr(nil), e.Args...)
						inner := a
						inner.Op = "nosuchfn"
						m.Args[ai] = inner
						invalid = append(invalid, m)
						break
					}
				}
			}
		}
	}
	var ok []model.Expr
	for _, e := range invalid {
		if divisorSafe(e, in0) {
			ok = append(ok, e)
		}
	}
	runAll(ok, "invalid", false)
	// illegal destination names
	for _, dst := range []string{"", "$x", "'q'", `"q"`} {
		for _, e := range []model.Expr{model.ColE("i"), model.IntE(1), model.Call("+", model.ColE("i"), model.IntE(1)), model.Call("abs", model.Call("-", model.ColE("i"), model.ColE("i2")))} {
			if ctx.Mine() {
				exec(evalCase{Shape: 0, Dst: dst, Expr: e, Style: "expr"})
			}
		}
	}
}

func init() {
	core.Register(&core.Check{
		ID:    "C07",
		Setup: func() { c07Env_() },
		Level: "model_checking",
		Rule: "case = (index shape, destination, expression tree, construction style Expr / raw list / Val-wrapped leaves, default or user context). All well-typed trees of depth <= 2 over 12 leaves (columns and constants of every type incl. nil and the empty string), 22 unary (incl. user functions that map null to a non-zero result) and 14 binary function/type pairs, " +
			"(thorough: depth 3 over a reduced alphabet), n-ary calls with 3-4 arguments, each with 4 destinations (new, source column, other columns); plus invalid trees obtained by single mutations (unknown function/column, wrong operand type at every argument position, zero arguments, non-string operator) and illegal destination names. " +
			"Non-trivial = the model accepts the expression; distinct by (dst, expression text, style, context).",
		Assumptions: []string{
			"interpreter model (model/expr.go): typed function lookup by first operand, operands in written order, n-ary left fold; enum columns use string functions and do not mix with string columns in binary calls",
			"integer divisors are never zero (documented panic); destination names equal to the evaluator's temporary names are not generated",
			"one 4-row base frame (includes a user column named colcol-temp-0)",
		},
		Bound: map[string]string{
			"quick":    "well-typed depth<=2 (half of the dst/style/context combinations), n-ary over thinned depth<=1 pools, single-mutation invalid trees",
			"thorough": "well-typed depth<=2 with every dst/style/context combination, depth 3 over the reduced alphabet, n-ary over full depth<=1 pools",
		},
		Run:    c07Run,
		Replay: replayAs(runEvalCase),
	})
}

var _ = strings.Join
