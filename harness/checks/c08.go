package checks

import (
	"bytes"
	"encoding/json"
	"fmt"
	"math"
	"sort"
	"strings"

	"github.com/tobgu/qframe"
	"github.com/tobgu/qframe/config/groupby"
	"github.com/tobgu/qframe/config/newqf"
	"github.com/tobgu/qframe/types"

	"verif/harness/core"
	"verif/harness/model"
)

// C08 — New reproduces its input or rejects it; Select/Drop/Slice/Copy project exactly.

// colSpec describes one entry of the data map in data form.
type colSpec struct {
	Name string `json:"name"`
	// Kind: ints floats bools strings strptrs constint constfloat constbool conststring constnil int32s nil scalar
	Kind string `json:"kind"`
	Len  int    `json:"len"`
	// Strs overrides the default string cells ("\x00nil" = nil pointer) for strings/strptrs
	Strs []string `json:"strs,omitempty"`
}

type newCase struct {
	Cols  []colSpec `json:"cols"`
	Order []string  `json:"order,omitempty"` // nil = no ColumnOrder option
	// Enums: nil = no option
	EnumCol  string   `json:"enum_col,omitempty"`
	EnumVals []string `json:"enum_vals,omitempty"`
	EnumNil  bool     `json:"enum_nil,omitempty"` // Enums{col: nil}
}

const nilMark = "\x00nil"

func defaultStrs(n int) []string {
	all := []string{"v", nilMark, ""}
	return all[:n]
}

// hugeMark in Strs stands for a string of 2^24+5 bytes (kept out of the case descriptor)
const hugeMark = "\x00<16 MiB + 5 bytes>"

var hugeString = strings.Repeat("0123456789abcdef", 1<<20) + "tail!"

func (c colSpec) strs() []string {
	if c.Strs != nil {
		for i, s := range c.Strs {
			if s == hugeMark {
				out := append([]string{}, c.Strs...)
				out[i] = hugeString
				return out
			}
		}
		return c.Strs
	}
	return defaultStrs(c.Len)
}

// data builds the real data slice and the model cells (ok=false: unsupported type).
func (c colSpec) data() (interface{}, model.Col, bool) {
	mc := model.Col{Name: c.Name}
	switch c.Kind {
	case "ints":
		d := make([]int, c.Len)
		for i := range d {
			d[i] = 10 + i
			mc.Cells = append(mc.Cells, model.I(d[i]))
		}
		mc.Kind = model.Int
		return d, mc, true
	case "floats":
		d := make([]float64, c.Len)
		for i := range d {
			d[i] = 0.5 + float64(i)
			mc.Cells = append(mc.Cells, model.F(d[i]))
		}
		mc.Kind = model.Float
		return d, mc, true
	case "bools":
		d := make([]bool, c.Len)
		for i := range d {
			d[i] = i%2 == 0
			mc.Cells = append(mc.Cells, model.B(d[i]))
		}
		mc.Kind = model.Bool
		return d, mc, true
	case "strings":
		var d []string
		d = []string{}
		for _, s := range c.strs() {
			if s == nilMark {
				s = "w"
			}
			d = append(d, s)
			mc.Cells = append(mc.Cells, model.S(s))
		}
		mc.Kind = model.String
		return d, mc, true
	case "strptrs":
		d := []*string{}
		for _, s := range c.strs() {
			if s == nilMark {
				d = append(d, nil)
				mc.Cells = append(mc.Cells, model.Null())
			} else {
				s := s
				d = append(d, &s)
				mc.Cells = append(mc.Cells, model.S(s))
			}
		}
		mc.Kind = model.String
		return d, mc, true
	case "constint":
		for i := 0; i < c.Len; i++ {
			mc.Cells = append(mc.Cells, model.I(7))
		}
		mc.Kind = model.Int
		return qframe.ConstInt{Val: 7, Count: c.Len}, mc, true
	case "constfloat":
		for i := 0; i < c.Len; i++ {
			mc.Cells = append(mc.Cells, model.F(2.5))
		}
		mc.Kind = model.Float
		return qframe.ConstFloat{Val: 2.5, Count: c.Len}, mc, true
	case "constnegzero":
		nz := math.Copysign(0, -1)
		for i := 0; i < c.Len; i++ {
			mc.Cells = append(mc.Cells, model.F(nz))
		}
		mc.Kind = model.Float
		return qframe.ConstFloat{Val: nz, Count: c.Len}, mc, true
	case "constbool":
		for i := 0; i < c.Len; i++ {
			mc.Cells = append(mc.Cells, model.B(true))
		}
		mc.Kind = model.Bool
		return qframe.ConstBool{Val: true, Count: c.Len}, mc, true
	case "conststring":
		s := "v"
		if len(c.Strs) > 0 {
			s = c.Strs[0]
		}
		for i := 0; i < c.Len; i++ {
			mc.Cells = append(mc.Cells, model.S(s))
		}
		mc.Kind = model.String
		return qframe.ConstString{Val: &s, Count: c.Len}, mc, true
	case "constnil":
		for i := 0; i < c.Len; i++ {
			mc.Cells = append(mc.Cells, model.Null())
		}
		mc.Kind = model.String
		return qframe.ConstString{Val: nil, Count: c.Len}, mc, true
	case "int32s":
		return make([]int32, c.Len), mc, false
	case "nil":
		return nil, mc, false
	}
	return 42, mc, false
}

func isStringKind(k string) bool {
	switch k {
	case "strings", "strptrs", "conststring", "constnil":
		return true
	}
	return false
}

// modelNew predicts New's outcome.
func modelNew(c newCase) model.Frame {
	rej := func(f string, a ...interface{}) model.Frame {
		return model.Frame{Err: true, ErrText: fmt.Sprintf(f, a...)}
	}
	byName := map[string]colSpec{}
	for _, col := range c.Cols {
		if !checkNameOK(col.Name) {
			return rej("illegal name %q", col.Name)
		}
		byName[col.Name] = col
	}
	var order []string
	if len(c.Order) == 0 {
		for n := range byName {
			order = append(order, n)
		}
		sort.Strings(order)
	} else {
		order = c.Order
		if len(order) != len(byName) {
			return rej("column order length")
		}
		seen := map[string]bool{}
		for _, n := range order {
			if _, ok := byName[n]; !ok {
				return rej("unknown column %q in column order", n)
			}
			if seen[n] {
				return rej("duplicate column %q in column order", n)
			}
			seen[n] = true
		}
	}
	f := model.Frame{}
	length := -1
	enumUsed := c.EnumCol == ""
	for _, n := range order {
		spec := byName[n]
		_, mc, ok := spec.data()
		if !ok {
			return rej("unsupported data type %s", spec.Kind)
		}
		if c.EnumCol == n && isStringKind(spec.Kind) {
			enumUsed = true
			mc.Kind = model.Enum
			if !c.EnumNil && len(c.EnumVals) > 255 {
				return rej("more than 255 enum values")
			}
			if !c.EnumNil {
				mc.EnumVals = c.EnumVals
				if len(c.EnumVals) > 0 {
					for _, cell := range mc.Cells {
						if !cell.Null && enumRank(mc, cell.S) < 0 {
							return rej("undeclared enum value %q", cell.S)
						}
					}
				}
			}
		}
		if length >= 0 && len(mc.Cells) != length {
			return rej("different lengths")
		}
		length = len(mc.Cells)
		f.Cols = append(f.Cols, mc)
	}
	if !enumUsed {
		return rej("enum option for a missing or non-string column")
	}
	if length < 0 {
		length = 0
	}
	f.N = length
	return f
}

func runNewCase(c newCase) *core.Failure {
	data := map[string]interface{}{}
	for _, col := range c.Cols {
		d, _, _ := col.data()
		data[col.Name] = d
	}
	var fns []newqf.ConfigFunc
	if c.Order != nil {
		fns = append(fns, newqf.ColumnOrder(c.Order...))
	}
	if c.EnumCol != "" {
		var vals []string
		if !c.EnumNil {
			vals = c.EnumVals
			if vals == nil {
				vals = []string{}
			}
		}
		fns = append(fns, newqf.Enums(map[string][]string{c.EnumCol: vals}))
	}
	got := model.Observe(qframe.New(data, fns...))
	want := modelNew(c)
	if !want.Err && got.Err {
		// a constant column of zero rows whose value is not a declared enum value:
		// there is no cell holding the undeclared value, rejecting is as defensible as accepting
		for _, col := range c.Cols {
			if col.Kind == "conststring" && col.Len == 0 && c.EnumCol == col.Name && !c.EnumNil && len(c.EnumVals) > 0 {
				v := "v"
				if len(col.Strs) > 0 {
					v = col.Strs[0]
				}
				declared := false
				for _, ev := range c.EnumVals {
					declared = declared || ev == v
				}
				if !declared {
					return nil
				}
			}
		}
	}
	if d := model.Diff(want, got); d != "" {
		why := ""
		if want.Err {
			why = " (model rejects: " + want.ErrText + ")"
		}
		fail := core.Failf("New(%+v): %s%s\n want: %s\n  got: %s", c, d, why, want, got)
		return fail
	}
	// latent state: frames with an enum column or a column made from a constant go through the battery (battery.go):
	// follow-up operations on the frame and on a frame built from plain slices with the same content
	if !want.Err && want.N > 0 && len(c.Cols) <= 3 {
		special := c.EnumCol != ""
		for _, col := range c.Cols {
			special = special || strings.HasPrefix(col.Kind, "const")
		}
		if special {
			decl := map[string][]string{}
			if c.EnumCol != "" && !c.EnumNil && len(c.EnumVals) > 0 {
				decl[c.EnumCol] = c.EnumVals
			}
			r := qframe.New(data, fns...)
			what := fmt.Sprintf("the frame returned by New(%+v)", c)
			if f := latentBattery(r, decl, what); f != nil {
				return f
			}
			return bookkeepingBattery(r, what)
		}
	}
	return nil
}

// ---- projections -------------------------------------------------------------

type projCase struct {
	Shape int      `json:"shape"`
	Op    string   `json:"op"` // select drop slice copy
	Cols  []string `json:"cols,omitempty"`
	A     int      `json:"a,omitempty"`
	B     int      `json:"b,omitempty"`
	// Pre: a projection applied first (select/drop with PreCols); Op then runs on its result
	Pre     string   `json:"pre,omitempty"`
	PreCols []string `json:"pre_cols,omitempty"`
	// Base: "" = the three-column frame a,b,c; "glob" = column names holding * ? [ ] \ next to names they would match
	// as patterns; otherwise a frame derived from a,b,c (see c08DerivedBases)
	Base string `json:"base,omitempty"`
}

// frames "however derived": the projection operations run on the results of these
var c08DerivedBases = []string{"aggregated", "evaluated", "applied", "rownums", "distinct-sorted", "filtered", "csv", "json", "evaluated-onto-existing", "copied-onto-existing", "sorted-then-upper"}

func c08GlobBase() model.Frame {
	f := model.Frame{N: 3}
	for i, n := range []string{"x[0]", "x0", "n*", "n1", `n\*`} {
		f.Cols = append(f.Cols, model.Col{Name: n, Kind: model.Int, Cells: []model.Cell{model.I(10 * i), model.I(10*i + 1), model.I(10*i + 2)}})
	}
	return f
}

type c08Derived struct {
	qf qframe.QFrame
	in model.Frame
}

var c08derived = map[string]c08Derived{}

// c08ProjFrame: the input frame of a projection case (built once per worker process) and its observation.
func c08ProjFrame(base string, shape int) (qframe.QFrame, model.Frame) {
	if base == "" {
		c08ProjEnv()
		return c08proj.real[shape], c08proj.obs[shape]
	}
	key := fmt.Sprintf("%s/%d", base, shape)
	if d, ok := c08derived[key]; ok {
		return d.qf, d.in
	}
	var qf qframe.QFrame
	var in model.Frame
	if base == "glob" {
		g := c08GlobBase()
		qf = model.BuildShape(g, shape)
		in = model.ObserveAs(qf, g)
	} else {
		q := model.BuildShape(c08ProjBase(), shape)
		switch base {
		case "aggregated":
			qf = q.GroupBy(groupby.Columns("c")).Aggregate(qframe.Aggregation{Fn: "sum", Column: "a"}, qframe.Aggregation{Fn: "count", Column: "b", As: "n"})
		case "evaluated":
			qf = q.Eval("d", qframe.Expr("+", types.ColumnName("a"), types.ColumnName("a")))
		case "applied":
			qf = q.Apply(qframe.Instruction{Fn: 2.5, DstCol: "d"}, qframe.Instruction{Fn: func(x int) int { return x + 1 }, DstCol: "a", SrcCol1: "a"})
		case "evaluated-onto-existing":
			qf = q.Eval("a", qframe.Expr("+", types.ColumnName("a"), types.ColumnName("a")))
		case "copied-onto-existing":
			qf = q.Copy("d", "b").Copy("b", "d").Apply(qframe.Instruction{Fn: func(x int) int { return -x }, DstCol: "a", SrcCol1: "a"})
		case "sorted-then-upper":
			qf = q.Sort(qframe.Order{Column: "a", Reverse: true}).Apply(qframe.Instruction{Fn: "ToUpper", DstCol: "b", SrcCol1: "b"})
		case "rownums":
			qf = q.WithRowNums("d")
		case "distinct-sorted":
			qf = q.Distinct().Sort(qframe.Order{Column: "a", Reverse: true})
		case "filtered":
			qf = q.Filter(qframe.Filter{Column: "a", Comparator: ">", Arg: 1})
		case "csv":
			var b bytes.Buffer
			if err := q.ToCSV(&b); err != nil {
				return q, model.Frame{Err: true, ErrText: err.Error()}
			}
			qf = qframe.ReadCSV(&b)
		case "json":
			var b bytes.Buffer
			if err := q.ToJSON(&b); err != nil {
				return q, model.Frame{Err: true, ErrText: err.Error()}
			}
			qf = qframe.ReadJSON(&b)
		}
		in = model.Observe(qf)
	}
	c08derived[key] = c08Derived{qf, in}
	return qf, in
}

func c08ProjBase() model.Frame {
	return model.Frame{N: 3, Cols: []model.Col{
		{Name: "a", Kind: model.Int, Cells: []model.Cell{model.I(1), model.I(2), model.I(3)}},
		{Name: "b", Kind: model.String, Cells: []model.Cell{model.S("x"), model.Null(), model.S("")}},
		{Name: "c", Kind: model.Enum, EnumVals: []string{"q", "p"}, Cells: []model.Cell{model.Null(), model.S("p"), model.S("q")}},
	}}
}

var c08proj struct {
	real []qframe.QFrame
	obs  []model.Frame
}

func c08ProjEnv() {
	if c08proj.real != nil {
		return
	}
	base := c08ProjBase()
	for s := 0; s < model.NShapes; s++ {
		q := model.BuildShape(base, s)
		o := model.ObserveAs(q, base)
		o.AdoptMeta(base)
		c08proj.real = append(c08proj.real, q)
		c08proj.obs = append(c08proj.obs, o)
	}
}

func runProjCase(c projCase) *core.Failure {
	qf, in := c08ProjFrame(c.Base, c.Shape)
	if in.Err {
		return core.Failf("input frame (%s) could not be built: %s", c.Base, in.ErrText)
	}
	if c.Pre != "" {
		// the first step is checked on its own by the single-step cases; here its observed result is the input
		if c.Pre == "select" {
			qf = qf.Select(c.PreCols...)
		} else {
			qf = qf.Drop(c.PreCols...)
		}
		o := model.Observe(qf)
		if o.Err {
			return nil
		}
		o.AdoptMeta(in)
		in = o
	}
	var got model.Frame
	var wants []model.Frame // any of these is acceptable
	rej := model.Frame{Err: true}
	switch c.Op {
	case "select":
		got = model.Observe(qf.Select(c.Cols...))
		w := model.Frame{N: in.N}
		ok := true
		for _, n := range c.Cols {
			col, _, found := in.Col(n)
			if !found {
				ok = false
				break
			}
			w.Cols = append(w.Cols, col)
		}
		if !ok {
			wants = []model.Frame{rej}
		} else if len(c.Cols) == 0 {
			// the row count of a frame without columns is not fixed by the statement
			w0 := w
			w0.N = 0
			wants = []model.Frame{w, w0}
		} else {
			wants = []model.Frame{w}
		}
	case "drop":
		got = model.Observe(qf.Drop(c.Cols...))
		drop := map[string]bool{}
		unknown := false
		for _, n := range c.Cols {
			drop[n] = true
			if _, _, ok := in.Col(n); !ok {
				unknown = true
			}
		}
		w := model.Frame{N: in.N}
		for _, col := range in.Cols {
			if !drop[col.Name] {
				w.Cols = append(w.Cols, col)
			}
		}
		wants = []model.Frame{w}
		if len(w.Cols) == 0 {
			w0 := w
			w0.N = 0
			wants = append(wants, w0)
		}
		if unknown {
			wants = append(wants, rej) // dropping a non-existent column: Err or ignored, both readings accepted
		}
	case "slice":
		got = model.Observe(qf.Slice(c.A, c.B))
		if c.A < 0 || c.A > c.B || c.B > in.N {
			wants = []model.Frame{rej}
		} else {
			rows := []int{}
			for r := c.A; r < c.B; r++ {
				rows = append(rows, r)
			}
			wants = []model.Frame{in.Rows(rows)}
		}
	case "copy":
		dst, src := c.Cols[0], c.Cols[1]
		got = model.Observe(qf.Copy(dst, src))
		col, _, ok := in.Col(src)
		switch {
		case !ok:
			wants = []model.Frame{rej}
		case dst == src:
			wants = []model.Frame{in}
		case !checkNameOK(dst):
			wants = []model.Frame{rej}
		default:
			w := in.Clone()
			nc := col
			nc.Name = dst
			if _, i, exists := w.Col(dst); exists {
				w.Cols[i] = nc
			} else {
				w.Cols = append(w.Cols, nc)
			}
			wants = []model.Frame{w}
		}
	default:
		return core.Failf("bad op")
	}
	var diffs []string
	for _, w := range wants {
		d := model.Diff(w, got)
		if d == "" {
			after := model.Observe(qf)
			after.AdoptMeta(in)
			if after.String() != in.String() {
				return core.Failf("%s changed its receiver", c.Op)
			}
			return nil
		}
		diffs = append(diffs, d)
	}
	return core.Failf("%s(%v,%d,%d) after %s(%v) on %s frame: %s\n input: %s\n  want: %s\n   got: %s", c.Op, c.Cols, c.A, c.B, c.Pre, c.PreCols, model.ShapeNames[c.Shape], strings.Join(diffs, " / "), in, wants[0], got)
}

// ---- enumeration ---------------------------------------------------------------

func c08Run(ctx *core.Ctx) {
	execNew := func(c newCase) {
		ctx.Exec(c, func() *core.Failure { return runNewCase(c) })
		if w := modelNew(c); w.Err {
			ctx.Outcome("new/rejected")
		} else {
			ctx.Outcome(fmt.Sprintf("new/accepted-%dcols", len(w.Cols)))
			ctx.Nontrivial(fmt.Sprintf("%+v", c))
		}
		if ctx.WantSample() && ctx.Index()%2503 == 3 {
			ctx.Sample(c)
		}
	}
	allKinds := []string{"ints", "floats", "bools", "strings", "strptrs", "constint", "constfloat", "constnegzero", "constbool", "conststring", "constnil", "int32s", "nil", "scalar"}
	fewKinds := []string{"ints", "floats", "strptrs", "constint", "conststring", "int32s"}
	lens := []int{0, 1, 3}
	specs := func(name string, kinds []string) []colSpec {
		var out []colSpec
		for _, k := range kinds {
			if k == "nil" || k == "scalar" {
				out = append(out, colSpec{Name: name, Kind: k})
				continue
			}
			for _, l := range lens {
				out = append(out, colSpec{Name: name, Kind: k, Len: l})
			}
		}
		return out
	}
	orderVariants := func(names []string) [][]string {
		out := [][]string{nil}
		forEachPerm(len(names), func(p []int) {
			o := make([]string, len(names))
			for i, j := range p {
				o[i] = names[j]
			}
			out = append(out, o)
		})
		if len(names) > 0 {
			out = append(out, names[:len(names)-1])                                      // too short
			out = append(out, append(append([]string{}, names...), "zz"))                // too long
			out = append(out, append(append([]string{}, names[:len(names)-1]...), "zz")) // unknown name
			if len(names) > 1 {
				d := append([]string{}, names...)
				d[len(d)-1] = d[0] // duplicate
				out = append(out, d)
			}
			// every column named, one of them twice (too long by a duplicate, at the end and in front)
			out = append(out, append(append([]string{}, names...), names[0]))
			out = append(out, append([]string{names[len(names)-1]}, names...))
		}
		return out
	}
	type enumVariant struct {
		col   string
		vals  []string
		isNil bool
	}
	enumVariants := []enumVariant{
		{},
		{col: "a", isNil: true},
		{col: "a", vals: []string{}},
		{col: "a", vals: []string{"", "v", "w"}}, // covering
		{col: "a", vals: []string{"w", "x"}},     // non-covering
		{col: "zz", vals: []string{"v"}},         // missing column
		{col: "b", vals: []string{"v", "", "w"}},
	}
	// part A: structure
	sets := [][]string{{}, {"a"}, {"a", "b"}, {"a", "b", "c"}}
	for _, names := range sets {
		kinds := allKinds
		_ = fewKinds
		var per [][]colSpec
		for _, n := range names {
			per = append(per, specs(n, kinds))
		}
		sizes := make([]int, len(per))
		total := 1
		for i, p := range per {
			sizes[i] = len(p)
			total *= len(p)
		}
		ovs := orderVariants(names)
		for idx := 0; idx < total; idx++ {
			cols := make([]colSpec, len(per))
			rem := idx
			for i := range per {
				cols[i] = per[i][rem%sizes[i]]
				rem /= sizes[i]
			}
			for _, ov := range ovs {
				for ei, ev := range enumVariants {
					_ = ei
					if !ctx.Mine() {
						continue
					}
					execNew(newCase{Cols: cols, Order: ov, EnumCol: ev.col, EnumVals: ev.vals, EnumNil: ev.isNil})
				}
			}
		}
	}
	// part B: names
	nameSet := []string{"a", "b", "", "$x", "'q'", `"q"`, `a"b`, "'", `''`, "x y", "ä",
		// quoted names with the quote character inside, mixed quotes, one-sided quotes
		`'a'b'`, `"a"b"`, `'''`, `"""`, `''x'`, `'a"`, `"a'`, `'ab`, `ab'`, "a$", " 'q'"}
	for _, n1 := range nameSet {
		if ctx.Mine() {
			execNew(newCase{Cols: []colSpec{{Name: n1, Kind: "ints", Len: 1}}})
		}
		for _, n2 := range nameSet {
			if n1 == n2 {
				continue
			}
			for _, ord := range [][]string{nil, {n1, n2}, {n2, n1}} {
				if ctx.Mine() {
					execNew(newCase{Cols: []colSpec{{Name: n1, Kind: "ints", Len: 1}, {Name: n2, Kind: "strptrs", Len: 1}}, Order: ord})
				}
			}
		}
	}
	// every name of <= 4 symbols over {' " $ a LF blank} as the only column of New and as the destination of Copy
	for _, n := range systematicNames() {
		if ctx.Mine() {
			execNew(newCase{Cols: []colSpec{{Name: n, Kind: "ints", Len: 1}}})
		}
		if ctx.Mine() {
			c := projCase{Shape: int(ctx.Index() % int64(model.NShapes)), Op: "copy", Cols: []string{n, "a"}}
			ctx.Exec(c, func() *core.Failure { return runProjCase(c) })
			ctx.Outcome("proj/copy-systematic-name")
		}
	}
	// part C: string contents (arbitrary bytes, long values, nil vs "")
	long := strings.Repeat("L", 300)
	cells := []string{"", nilMark, "\x00", "\xff\xfe", long, "a"}
	for n := 0; n <= 3; n++ {
		forEachSeq(n, len(cells), func(seq []int) {
			strs := make([]string, n)
			for i, v := range seq {
				strs[i] = cells[v]
			}
			for _, kind := range []string{"strptrs", "strings"} {
				for _, ev := range []enumVariant{{}, {col: "a", isNil: true}, {col: "a", vals: []string{"a", "", long, "\x00", "\xff\xfe", "w"}}} {
					if !ctx.Mine() {
						continue
					}
					execNew(newCase{Cols: []colSpec{{Name: "a", Kind: kind, Len: n, Strs: append([]string{}, strs...)}, {Name: "b", Kind: "constint", Len: n}},
						EnumCol: ev.col, EnumVals: ev.vals, EnumNil: ev.isNil})
				}
			}
		})
	}
	// explicit enum value lists around the 255-value limit; the data uses the first and the last declared value
	for _, nvals := range []int{254, 255, 256, 257} {
		vals := make([]string, nvals)
		for i := range vals {
			vals[i] = fmt.Sprintf("v%03d", i)
		}
		for _, kind := range []string{"strptrs", "conststring"} {
			if ctx.Mine() {
				c := newCase{Cols: []colSpec{{Name: "a", Kind: kind, Len: 3, Strs: []string{vals[nvals-1], vals[0], vals[nvals-1]}}}, EnumCol: "a", EnumVals: vals}
				ctx.Exec(c, func() *core.Failure { return runNewCase(c) })
				ctx.Outcome(fmt.Sprintf("new/enum-%dvalues", nvals))
			}
		}
	}
	// lengths around the block sizes a fill or copy loop might use: every data kind, every cell compared
	for _, l := range []int{15, 16, 17, 63, 64, 65, 127, 128, 129, 192, 255, 256, 257, 1024, 4095, 4096, 4097, 5000, 12000} {
		for _, kind := range []string{"ints", "floats", "bools", "constint", "constfloat", "constbool", "conststring", "constnil"} {
			if ctx.Mine() {
				execNew(newCase{Cols: []colSpec{{Name: "a", Kind: kind, Len: l}, {Name: "b", Kind: "ints", Len: l}}})
			}
		}
	}
	// one very long string (beyond 2^24 bytes) between short ones
	for _, kind := range []string{"strptrs", "strings"} {
		if ctx.Mine() {
			execNew(newCase{Cols: []colSpec{{Name: "a", Kind: kind, Len: 3, Strs: []string{"x", hugeMark, "y"}}}})
		}
	}
	for _, s := range cells {
		if s == nilMark {
			continue
		}
		for _, l := range []int{0, 1, 3} {
			if ctx.Mine() {
				execNew(newCase{Cols: []colSpec{{Name: "a", Kind: "conststring", Len: l, Strs: []string{s}}}})
			}
		}
	}

	// part D: projections
	c08ProjEnv()
	execProj := func(c projCase) {
		ctx.Exec(c, func() *core.Failure { return runProjCase(c) })
		ctx.Outcome("proj/" + c.Op)
		ctx.Nontrivial(fmt.Sprintf("%+v", c))
		if ctx.WantSample() && ctx.Index()%101 == 1 {
			ctx.Sample(c)
		}
	}
	universe := []string{"a", "b", "c", "zz"}
	for shape := 0; shape < model.NShapes; shape++ {
		// Select: all duplicate-free sequences
		var rec func(cur []string, used int)
		rec = func(cur []string, used int) {
			if ctx.Mine() {
				execProj(projCase{Shape: shape, Op: "select", Cols: append([]string{}, cur...)})
			}
			for i, u := range universe {
				if used&(1<<i) == 0 {
					rec(append(cur, u), used|1<<i)
				}
			}
		}
		rec(nil, 0)
		// Drop: all subsets
		for mask := 0; mask < 1<<len(universe); mask++ {
			var cols []string
			for i, u := range universe {
				if mask&(1<<i) != 0 {
					cols = append(cols, u)
				}
			}
			if ctx.Mine() {
				execProj(projCase{Shape: shape, Op: "drop", Cols: cols})
			}
		}
		// Drop lists naming a column twice, and naming columns that do not exist
		for _, u := range universe {
			for _, v := range append(append([]string{}, universe...), "zz") {
				for _, cols := range [][]string{{u, u}, {u, v, u}, {v, u, u}, {u, u, u, u}, {"zz"}, {"zz", u}, {u, "zz", "yy"}} {
					if ctx.Mine() {
						execProj(projCase{Shape: shape, Op: "drop", Cols: cols})
					}
				}
			}
		}
		// Slice: all bounds around 0 and n
		for a := -1; a <= 4; a++ {
			for b := -1; b <= 4; b++ {
				if ctx.Mine() {
					execProj(projCase{Shape: shape, Op: "slice", A: a, B: b})
				}
			}
		}
		// two steps: every valid Select sequence / Drop subset, then every Copy, Select of the remaining columns reversed, and Slice
		var pres []projCase
		var rec2 func(cur []string, used int)
		rec2 = func(cur []string, used int) {
			if len(cur) > 0 {
				pres = append(pres, projCase{Pre: "select", PreCols: append([]string{}, cur...)})
			}
			for i, u := range universe[:3] {
				if used&(1<<i) == 0 {
					rec2(append(cur, u), used|1<<i)
				}
			}
		}
		rec2(nil, 0)
		for mask := 1; mask < 7; mask++ {
			var cols []string
			for i, u := range universe[:3] {
				if mask&(1<<i) != 0 {
					cols = append(cols, u)
				}
			}
			pres = append(pres, projCase{Pre: "drop", PreCols: cols})
		}
		for _, pre := range pres {
			for _, dst := range []string{"a", "b", "c", "new"} {
				for _, src := range []string{"a", "b", "c"} {
					if ctx.Mine() {
						execProj(projCase{Shape: shape, Op: "copy", Cols: []string{dst, src}, Pre: pre.Pre, PreCols: pre.PreCols})
					}
				}
			}
			if ctx.Mine() {
				execProj(projCase{Shape: shape, Op: "slice", A: 1, B: 3, Pre: pre.Pre, PreCols: pre.PreCols})
			}
			for _, sel := range [][]string{{"c"}, {"b", "a"}, {"c", "b", "a"}} {
				if ctx.Mine() {
					execProj(projCase{Shape: shape, Op: "select", Cols: sel, Pre: pre.Pre, PreCols: pre.PreCols})
				}
			}
		}
		// the same on frames with pattern-like column names and on derived frames: every duplicate-free Select
		// sequence, every Drop subset, every Copy pair, one Slice
		for _, base := range append([]string{"glob"}, c08DerivedBases...) {
			_, bin := c08ProjFrame(base, shape)
			names := append(bin.Names(), "q?")
			var rec3 func(cur []string, used int)
			rec3 = func(cur []string, used int) {
				if ctx.Mine() {
					execProj(projCase{Base: base, Shape: shape, Op: "select", Cols: append([]string{}, cur...)})
				}
				for i, u := range names {
					if used&(1<<i) == 0 {
						rec3(append(cur, u), used|1<<i)
					}
				}
			}
			rec3(nil, 0)
			for mask := 0; mask < 1<<len(names); mask++ {
				var cols []string
				for i, u := range names {
					if mask&(1<<i) != 0 {
						cols = append(cols, u)
					}
				}
				if ctx.Mine() {
					execProj(projCase{Base: base, Shape: shape, Op: "drop", Cols: cols})
				}
			}
			for _, dst := range append(append([]string{}, names...), "new") {
				for _, src := range names {
					if ctx.Mine() {
						execProj(projCase{Base: base, Shape: shape, Op: "copy", Cols: []string{dst, src}})
					}
				}
			}
			if ctx.Mine() {
				execProj(projCase{Base: base, Shape: shape, Op: "slice", A: 1, B: bin.N})
			}
		}
		// Copy
		for _, dst := range []string{"a", "b", "c", "new", "zz", "", "$x", "'q'", `'a'b'`, `"""`, `'a"`} {
			for _, src := range []string{"a", "b", "c", "zz", ""} {
				if ctx.Mine() {
					execProj(projCase{Shape: shape, Op: "copy", Cols: []string{dst, src}})
				}
			}
		}
	}
}

func init() {
	core.Register(&core.Check{
		ID:    "C08",
		Setup: func() { c08ProjEnv() },
		Level: "model_checking",
		Rule: "case = New input (column map over names a,b,c with every data kind incl. Const* and unsupported types, every length combination from {0,1,3}, every ColumnOrder variant: none/all permutations/too short/too long/unknown/duplicate, every Enums variant: none/nil/empty/covering/non-covering/missing column/other column), " +
			"name alphabets incl. illegal names, string cell alphabets (\"\", nil, NUL, invalid UTF-8, 300 bytes); and every Select sequence, Drop subset, Slice bound pair and Copy pair on 8 index shapes, alone and as the second step after every valid Select sequence / Drop subset. " +
			"Non-trivial = New accepted by the model / any projection request; distinct by case content.",
		Assumptions: []string{
			"model of New written from the statement: reject illegal names, unequal lengths, unknown/duplicate ColumnOrder entries, Enums entries for missing or non-string columns, undeclared enum values, unsupported data types",
			"two readings left open: the row count of a frame with zero columns, and whether Drop of a non-existent column is an error",
		},
		Bound: map[string]string{
			"quick":    "New: 0-3 columns over 13 data kinds x 3 lengths with all order and enum variants; names; string contents; all projections",
			"thorough": "same as quick (the space is small enough to be enumerated completely on every run)",
		},
		Run: c08Run,
		Replay: func(raw json.RawMessage) *core.Failure {
			if strings.Contains(string(raw), `"op"`) {
				return replayAs(runProjCase)(raw)
			}
			return replayAs(runNewCase)(raw)
		},
	})
}
