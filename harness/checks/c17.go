package checks

import (
	"bytes"
	"encoding/json"
	"fmt"
	"strings"

	"github.com/tobgu/qframe"
	"github.com/tobgu/qframe/config/csv"
	"github.com/tobgu/qframe/config/groupby"
	"github.com/tobgu/qframe/config/newqf"

	"verif/harness/core"
	"verif/harness/model"
)

// C17 — Enum columns keep their declared value set and order.

type enumCase struct {
	// Declared values (nil = derived from the data)
	Declared []string `json:"declared"`
	// Data: cells, "\x00nil" = null
	Data []string `json:"data,omitempty"`
	// Gen: large families are regenerated: "large:<size>" (declared vNNN descending) or "derived:<cardinality>"
	Gen  string `json:"gen,omitempty"`
	Path string `json:"path"` // new csv json const
}

func largeDeclared(size int) []string {
	// declared order is the reverse of the alphabetical order
	out := make([]string, size)
	for i := range out {
		out[i] = fmt.Sprintf("v%03d", size-1-i)
	}
	return out
}

var boundaryRanks = []int{0, 1, 62, 63, 64, 65, 126, 127, 128, 129, 190, 191, 192, 193, 253, 254}

func (c enumCase) expand() (declared []string, data []string) {
	switch {
	case strings.HasPrefix(c.Gen, "large:"):
		var size int
		fmt.Sscanf(c.Gen, "large:%d", &size)
		declared = largeDeclared(size)
		if size <= 255 {
			for _, r := range boundaryRanks {
				if r < size {
					data = append(data, declared[r])
				}
			}
			data = append(data, nilMark, declared[size-1], declared[0], nilMark)
		} else {
			data = []string{declared[0]}
		}
		return declared, data
	case strings.HasPrefix(c.Gen, "derived:"), strings.HasPrefix(c.Gen, "derived-empty-list:"):
		var k int
		fmt.Sscanf(c.Gen[strings.Index(c.Gen, ":")+1:], "%d", &k)
		for i := 0; i < k; i++ {
			data = append(data, fmt.Sprintf("d%03d", (i*7)%k)) // k distinct values (7 is coprime to the sizes used)
		}
		data = append(data, nilMark, data[0], data[len(data)-1])
		if strings.HasPrefix(c.Gen, "derived-empty-list:") {
			return []string{}, data
		}
		return nil, data
	}
	return c.Declared, c.Data
}

// construct builds the enum column through the given path.
func constructEnum(path string, declared, data []string) qframe.QFrame {
	ptrs := make([]*string, len(data))
	for i := range data {
		if data[i] != nilMark {
			ptrs[i] = &data[i]
		}
	}
	enumOpt := map[string][]string{"e": declared}
	switch path {
	case "new":
		return qframe.New(map[string]interface{}{"e": ptrs}, newqf.Enums(enumOpt))
	case "const":
		return qframe.New(map[string]interface{}{"e": qframe.ConstString{Val: ptrs[0], Count: len(data)}}, newqf.Enums(enumOpt))
	case "new-agg":
		// the enum column as the key column of an aggregation result (built by Column.Subset)
		q := qframe.New(map[string]interface{}{"e": ptrs, "n": qframe.ConstInt{Val: 1, Count: len(data)}}, newqf.Enums(enumOpt))
		return q.GroupBy(groupby.Columns("e"), groupby.Null(true)).Aggregate(qframe.Aggregation{Fn: "sum", Column: "n"}).Select("e")
	case "csv":
		var sb strings.Builder
		sb.WriteString("e,k\n")
		for _, d := range data {
			if d != nilMark {
				sb.WriteString(d)
			}
			sb.WriteString(",1\n")
		}
		opts := []csv.ConfigFunc{csv.Types(map[string]string{"e": "enum"}), csv.EmptyNull(true)}
		callerMap := map[string][]string{"e": declared}
		if declared != nil {
			opts = append(opts, csv.EnumValues(callerMap))
		}
		// options are values a caller may keep: a first read with the same option values and the same
		// map must neither consume them nor touch the caller's map
		first := qframe.ReadCSV(strings.NewReader(sb.String()), opts...)
		second := qframe.ReadCSV(strings.NewReader(sb.String()), opts...)
		if (first.Err == nil) != (second.Err == nil) || len(callerMap) != 1 {
			return qframe.QFrame{Err: fmt.Errorf("VERIF: reading twice with the same csv options differs (first err=%v, second err=%v) or the caller's EnumValues map was modified (%d entries left)", first.Err, second.Err, len(callerMap))}
		}
		return second.Select("e")
	case "json":
		recs := make([]map[string]interface{}, len(data))
		for i, d := range data {
			if d == nilMark {
				recs[i] = map[string]interface{}{"e": nil}
			} else {
				recs[i] = map[string]interface{}{"e": d}
			}
		}
		b, _ := json.Marshal(recs)
		return qframe.ReadJSON(bytes.NewReader(b), newqf.Enums(enumOpt))
	}
	return qframe.QFrame{}
}

func runEnumCase(c enumCase) *core.Failure {
	declared, data := c.expand()
	if len(data) == 0 {
		return nil
	}
	q := constructEnum(c.Path, declared, data)
	if len(declared) == 0 {
		declared = nil // an empty value list means "derived from the data", exactly like no list
	}
	what := fmt.Sprintf("enum via %s, %d declared values %.60q, data %.80q", c.Path, len(declared), declared, data)
	// expected construction outcome
	mustFail := len(declared) > 255
	distinct := map[string]bool{}
	for _, d := range data {
		if d == nilMark {
			continue
		}
		distinct[d] = true
		if len(declared) > 0 {
			found := false
			for _, v := range declared {
				found = found || v == d
			}
			if !found {
				mustFail = true
			}
		}
	}
	if len(declared) == 0 && len(distinct) > 255 {
		mustFail = true
	}
	if q.Err != nil && strings.HasPrefix(q.Err.Error(), "VERIF:") {
		return core.Failf("%s: %s", what, strings.TrimPrefix(q.Err.Error(), "VERIF: "))
	}
	if mustFail {
		if q.Err == nil {
			return core.Failf("%s: construction must fail (undeclared value, or more than 255 values) but Err is nil", what)
		}
		return nil
	}
	if q.Err != nil {
		return core.Failf("%s: unexpected construction error: %v", what, q.Err)
	}
	if c.Path == "new-agg" {
		// one row per distinct value in unspecified order: take the observed cells as the data, after
		// checking that they are exactly the distinct values
		got := model.Observe(q)
		col, _, ok := got.Col("e")
		if !ok || col.Kind != model.Enum {
			return core.Failf("%s: aggregation key column is not an enum column: %s", what, got)
		}
		seen := map[string]bool{}
		var nd []string
		for _, cell := range col.Cells {
			k := nilMark
			if !cell.Null {
				k = cell.S
			}
			if seen[k] {
				return core.Failf("%s: value %q occurs twice among the group keys: %s", what, k, got)
			}
			seen[k] = true
			nd = append(nd, k)
		}
		for _, d := range data {
			if !seen[d] {
				return core.Failf("%s: value %q missing among the group keys: %s", what, d, got)
			}
		}
		if len(nd) != len(distinct)+func() int {
			for _, d := range data {
				if d == nilMark {
					return 1
				}
			}
			return 0
		}() {
			return core.Failf("%s: group keys %q are not the distinct values", what, nd)
		}
		data = nd
	}
	// right after this column was built, a column declared over OTHER values must still reject this column's
	// values (whatever construction keeps in tables, pools or caches must not make a value look declared)
	for _, d := range data {
		if d == nilMark {
			continue
		}
		probe := qframe.New(map[string]interface{}{"e": []string{d}}, newqf.Enums(map[string][]string{"e": {"~declared~", "~only~"}}))
		if probe.Err == nil {
			return core.Failf("%s: a column built next, declared over [~declared~ ~only~], accepted the value %q of this column", what, d)
		}
		probe2 := qframe.ReadCSV(strings.NewReader("e\n"+"~only~\n"), csv.Types(map[string]string{"e": "enum"}), csv.EnumValues(map[string][]string{"e": {"~only~"}}))
		if probe2.Err != nil {
			return core.Failf("%s: a CSV enum column read next failed: %v", what, probe2.Err)
		}
		break
	}
	// the column reproduces the data: never another string, never nil for a value, null stays null
	want := model.Col{Name: "e", Kind: model.Enum, EnumVals: declared}
	for _, d := range data {
		if d == nilMark {
			want.Cells = append(want.Cells, model.Null())
		} else {
			want.Cells = append(want.Cells, model.S(d))
		}
	}
	wf := model.Frame{N: len(data), Cols: []model.Col{want}}
	got := model.Observe(q)
	if d := model.Diff(wf, got); d != "" {
		return core.Failf("%s: column differs from the data: %s\n got %s", what, d, got)
	}
	// latent state: the column and frames derived from it (upper-cased, sorted, aggregated, ...) against frames built
	// with New from what they show (battery.go)
	if len(data) <= 3 && len(declared) <= 4 && c.Path != "new-agg" {
		decl := map[string][]string{}
		if len(declared) > 0 {
			decl["e"] = declared
		}
		if f := latentDeep(q, decl, what); f != nil {
			return f
		}
	}
	in := wf
	// the same column with all its rows in reverse order (a full-length index that is not the identity)
	revIx := make([]int, in.N)
	for i := range revIx {
		revIx[i] = in.N - 1 - i
	}
	inRev := in.Rows(revIx)
	qRev := q.WithRowNums("~rn").Sort(qframe.Order{Column: "~rn", Reverse: true}).Select("e")
	if d := model.Diff(inRev, model.Observe(qRev)); d != "" && len(q.ColumnNames()) == 1 {
		return core.Failf("%s: the reversed frame does not show the reversed rows: %s", what, d)
	}
	checkClause := func(cl model.Clause) *core.Failure {
		res := model.Observe(q.Filter(model.BuildClause(cl, in.Kinds())))
		rows, err := model.Evaluator{F: in}.Filter(cl)
		if err == nil {
			resRev := model.Observe(qRev.Filter(model.BuildClause(cl, in.Kinds())))
			rowsRev, _ := model.Evaluator{F: inRev}.Filter(cl)
			if d := model.Diff(inRev.Rows(rowsRev), resRev); d != "" {
				return core.Failf("%s: Filter %s on the frame with its rows reversed: %s\n want rows %v of %s", what, cl, d, rowsRev, inRev)
			}
		}
		// the same leaf where no row is left to decide: on the frame without rows, and as the last
		// member of an Or whose earlier members already select every row. Whether the clause is an
		// error depends on the clause and the column's declaration, never on the rows.
		empty := q.Slice(0, 0).Filter(model.BuildClause(cl, in.Kinds()))
		sat := q.Filter(qframe.Or(qframe.Filter{Column: "e", Comparator: "isnull"}, qframe.Filter{Column: "e", Comparator: "isnotnull"},
			model.BuildClause(cl, in.Kinds())))
		if (empty.Err != nil) != (err != nil) {
			return core.Failf("%s: Filter %s on the frame without rows: Err=%v, but on the frame with rows the model says error=%v", what, cl, empty.Err, err)
		}
		if (sat.Err != nil) != (err != nil) {
			return core.Failf("%s: Or(isnull, isnotnull, %s): Err=%v, model says error=%v", what, cl, sat.Err, err)
		}
		if err == nil && (empty.Len() != 0 || sat.Len() != in.N) {
			return core.Failf("%s: Filter %s: %d rows from the empty frame, %d of %d rows from the saturated Or", what, cl, empty.Len(), sat.Len(), in.N)
		}
		if err != nil {
			if !res.Err {
				return core.Failf("%s: Filter %s must be an error (%v)", what, cl, err)
			}
			return nil
		}
		if d := model.Diff(in.Rows(rows), res); d != "" {
			return core.Failf("%s: Filter %s: %s\n want rows %v", what, cl, d, rows)
		}
		return nil
	}
	check := func(l model.Leaf) *core.Failure {
		if f := checkClause(model.LeafC(l)); f != nil {
			return f
		}
		// ... and negated by a Not around it (next to the Inverse flag of the leaf itself)
		return checkClause(model.Not(model.LeafC(l)))
	}
	// constants: every declared value for small lists, boundary ranks for large ones; plus an undeclared one
	var consts []string
	if len(declared) > 0 {
		if len(declared) <= 4 {
			consts = append(consts, declared...)
		} else {
			for _, r := range boundaryRanks {
				if r < len(declared) {
					consts = append(consts, declared[r])
				}
			}
		}
		consts = append(consts, "undeclared!")
	} else {
		for d := range distinct {
			consts = append(consts, d)
			if len(consts) >= 3 {
				break
			}
		}
		consts = append(consts, data[0])
	}
	ops := []string{"=", "!="}
	if len(declared) > 0 {
		ops = []string{"<", "<=", ">", ">=", "=", "!="}
	}
	for _, k := range consts {
		for _, op := range ops {
			for _, inv := range []bool{false, true} {
				l := lf("e", op, "string")
				l.S = k
				l.Inverse = inv
				if len(declared) == 0 && k == "undeclared!" {
					continue
				}
				if f := check(l); f != nil {
					return f
				}
			}
		}
	}
	// two tests of the column in one Or / And (every pair of constants, the undeclared one included): the
	// members keep their own meaning and their own validation
	eq := func(op, k string) model.Clause {
		l := lf("e", op, "string")
		l.S = k
		return model.LeafC(l)
	}
	pairConsts := consts
	if len(pairConsts) > 6 {
		pairConsts = append(append([]string{}, consts[:3]...), consts[len(consts)-3:]...)
	}
	for _, k1 := range pairConsts {
		for _, k2 := range pairConsts {
			if len(declared) == 0 && (k1 == "undeclared!" || k2 == "undeclared!") {
				continue
			}
			for _, cl := range []model.Clause{model.Or(eq("=", k1), eq("=", k2)), model.And(eq("=", k1), eq("=", k2)), model.Or(eq("=", k1), eq("!=", k2)),
				model.Or(eq("=", k1), eq("=", k2), eq("=", k1)), model.Not(model.Or(eq("=", k1), eq("=", k2)))} {
				if f := checkClause(cl); f != nil {
					return f
				}
			}
		}
	}
	// in / like / ilike selecting boundary ranks (bitset words 0..3)
	var sel []model.Cell
	src := declared
	if len(src) == 0 {
		for d := range distinct {
			src = append(src, d)
		}
	}
	for _, r := range boundaryRanks {
		if r < len(src) {
			sel = append(sel, model.S(src[r]))
			one := lf("e", "in", "strings")
			one.List = []model.Cell{model.S(src[r])}
			if f := check(one); f != nil {
				return f
			}
			lk := lf("e", "like", "string")
			lk.S = src[r]
			if f := check(lk); f != nil {
				return f
			}
			il := lf("e", "ilike", "string")
			il.S = "%" + strings.ToUpper(src[r])
			if f := check(il); f != nil {
				return f
			}
			for _, l := range []model.Leaf{one, lk, il} {
				l.Inverse = true
				if f := check(l); f != nil {
					return f
				}
			}
		}
	}
	all := lf("e", "in", "strings")
	all.List = sel
	if f := check(all); f != nil {
		return f
	}
	all.Inverse = true
	if f := check(all); f != nil {
		return f
	}
	// patterns and in-lists that name no value of the column: no row, and no error either (only "=" and the
	// ordering comparators validate their constant)
	for _, l := range []model.Leaf{func() model.Leaf { l := lf("e", "like", "string"); l.S = "no such value"; return l }(),
		func() model.Leaf { l := lf("e", "ilike", "string"); l.S = "%no such value"; return l }(),
		func() model.Leaf { l := lf("e", "like", "string"); l.S = "no.such.*"; return l }(),
		func() model.Leaf {
			l := lf("e", "in", "strings")
			l.List = []model.Cell{model.S("no such value"), model.S(data[0])}
			return l
		}()} {
		for _, inv := range []bool{false, true} {
			l.Inverse = inv
			if f := check(l); f != nil {
				return f
			}
		}
	}
	for _, nl := range []string{"isnull", "isnotnull"} {
		if f := check(lf("e", nl, "none")); f != nil {
			return f
		}
	}
	// column against column: two columns of the same declared enum type compare by declared rank (ties included)
	if len(declared) > 0 && c.Path == "new" && len(data) > 1 {
		rot := append(append([]string{}, data[1:]...), data[0])
		ptr := func(vals []string) []*string {
			out := make([]*string, len(vals))
			for i := range vals {
				if vals[i] != nilMark {
					out[i] = &vals[i]
				}
			}
			return out
		}
		e2 := model.Col{Name: "e2", Kind: model.Enum, EnumVals: declared}
		for _, d := range rot {
			if d == nilMark {
				e2.Cells = append(e2.Cells, model.Null())
			} else {
				e2.Cells = append(e2.Cells, model.S(d))
			}
		}
		pf := model.Frame{N: len(data), Cols: []model.Col{want, e2}}
		pq := qframe.New(map[string]interface{}{"e": ptr(data), "e2": ptr(rot)}, newqf.Enums(map[string][]string{"e": declared, "e2": declared}), newqf.ColumnOrder("e", "e2"))
		if pq.Err != nil {
			return core.Failf("%s: could not build the two-column frame: %v", what, pq.Err)
		}
		for _, op := range []string{"<", "<=", ">", ">=", "=", "!="} {
			for _, inv := range []bool{false, true} {
				l := lf("e", op, "col")
				l.ArgCol = "e2"
				l.Inverse = inv
				res := model.Observe(pq.Filter(model.BuildClause(model.LeafC(l), pf.Kinds())))
				rows, err := model.Evaluator{F: pf}.Filter(model.LeafC(l))
				if err != nil {
					return core.Failf("%s: model rejects %s: %v", what, model.LeafC(l), err)
				}
				res.AdoptMeta(pf)
				if d := model.Diff(pf.Rows(rows), res); d != "" {
					return core.Failf("%s: second column %.80q: Filter %s: %s\n want rows %v", what, rot, model.LeafC(l), d, rows)
				}
			}
		}
	}
	// Equals against sibling columns (derived enums over other data): null is not a value, a value is not null, a value
	// this column does not know is not any of its cells; an equal column with its values in another order is Equal
	if len(data) <= 24 && c.Path != "new-agg" {
		mk := func(vals []string) qframe.QFrame {
			ptrs := make([]*string, len(vals))
			for i := range vals {
				if vals[i] != nilMark {
					ptrs[i] = &vals[i]
				}
			}
			return qframe.New(map[string]interface{}{"e": ptrs}, newqf.Enums(map[string][]string{"e": nil}))
		}
		qe := q.Select("e")
		same := mk(append([]string{}, data...))
		if same.Err == nil {
			if a, why := qe.Equals(same); !a {
				return core.Failf("%s: not Equal to a derived enum column holding the same cells (%s)", what, why)
			}
			if a, why := same.Equals(qe); !a {
				return core.Failf("%s: a derived enum column holding the same cells is not Equal to it (%s)", what, why)
			}
		}
		for r := range data {
			for _, repl := range []string{nilMark, "~other~", data[(r+1)%len(data)]} {
				if repl == data[r] {
					continue
				}
				alt := append([]string{}, data...)
				alt[r] = repl
				o := mk(alt)
				if o.Err != nil {
					continue
				}
				if a, _ := qe.Equals(o); a {
					return core.Failf("%s: Equal to a column that differs in row %d (%q there)", what, r, repl)
				}
				if a, _ := o.Equals(qe); a {
					return core.Failf("%s: a column that differs in row %d (%q there) is Equal to it", what, r, repl)
				}
			}
		}
	}
	// sort by the declared order
	if len(declared) > 0 {
		idc := model.Col{Name: "id", Kind: model.Int}
		for i := range data {
			idc.Cells = append(idc.Cells, model.I(i))
		}
		withID := q.WithRowNums("id")
		inS := model.Frame{N: len(data), Cols: []model.Col{want, idc}}
		for _, o := range []ordSpec{{Col: "e"}, {Col: "e", Reverse: true}, {Col: "e", NullLast: true}, {Col: "e", Reverse: true, NullLast: true}} {
			out := model.Observe(withID.Sort(toOrders([]ordSpec{o})...))
			out.AdoptMeta(inS)
			if f := checkSorted(inS, out, []ordSpec{o}); f != nil {
				f.Msg = what + ": Sort " + fmt.Sprintf("%+v", o) + ": " + f.Msg
				return f
			}
		}
	}
	return nil
}

func c17Run(ctx *core.Ctx) {
	exec := func(c enumCase, outcome string) {
		ctx.Exec(c, func() *core.Failure { return runEnumCase(c) })
		ctx.Outcome(outcome)
		ctx.Nontrivial(fmt.Sprintf("%+v", c))
		if ctx.WantSample() && ctx.Index()%401 == 3 {
			ctx.Sample(c)
		}
	}
	paths := []string{"new", "csv", "json", "new-agg"}
	// small declared lists: all permutations of every non-empty subset of {a,b,c}, all data columns n <= 3
	vals := []string{"a", "b", "c"}
	var lists [][]string
	for mask := 1; mask < 8; mask++ {
		var sub []string
		for i, v := range vals {
			if mask&(1<<i) != 0 {
				sub = append(sub, v)
			}
		}
		forEachPerm(len(sub), func(p []int) {
			l := make([]string, len(sub))
			for i, j := range p {
				l[i] = sub[j]
			}
			lists = append(lists, l)
		})
	}
	lists = append(lists, nil)        // derived
	lists = append(lists, []string{}) // an empty list: derived as well
	cellAlpha := []string{"a", "b", "c", nilMark, "zz"}
	for _, decl := range lists {
		for n := 1; n <= 3; n++ {
			forEachSeq(n, len(cellAlpha), func(seq []int) {
				data := make([]string, n)
				for i, v := range seq {
					data[i] = cellAlpha[v]
				}
				for _, p := range paths {
					if ctx.Mine() {
						out := "small/accepted"
						for _, d := range data {
							if d != nilMark && len(decl) > 0 && !containsStr(decl, d) {
								out = "small/rejected"
							}
						}
						exec(enumCase{Declared: decl, Data: append([]string{}, data...), Path: p}, out)
					}
				}
				// constant column: all cells equal
				if n == 1 && data[0] != nilMark || n == 1 {
					for _, cnt := range []int{1, 3} {
						if ctx.Mine() {
							cd := make([]string, cnt)
							for i := range cd {
								cd[i] = data[0]
							}
							exec(enumCase{Declared: decl, Data: cd, Path: "const"}, "small/const")
						}
					}
				}
			})
		}
	}
	// large declared lists at the bitset word and cardinality boundaries
	for _, size := range []int{63, 64, 65, 127, 128, 129, 191, 192, 193, 254, 255, 256, 300} {
		for _, p := range paths {
			if ctx.Mine() {
				exec(enumCase{Gen: fmt.Sprintf("large:%d", size), Path: p}, fmt.Sprintf("large/%d", size))
			}
		}
	}
	// derived enums around the cardinality limit
	for _, k := range []int{1, 2, 3, 64, 65, 254, 255, 256, 257, 300} {
		for _, p := range paths {
			if ctx.Mine() {
				exec(enumCase{Gen: fmt.Sprintf("derived:%d", k), Path: p}, fmt.Sprintf("derived/%d", k))
				exec(enumCase{Gen: fmt.Sprintf("derived-empty-list:%d", k), Path: p}, fmt.Sprintf("derived-empty-list/%d", k))
			}
		}
	}
}

func containsStr(l []string, s string) bool {
	for _, x := range l {
		if x == s {
			return true
		}
	}
	return false
}

func init() {
	core.Register(&core.Check{
		ID:    "C17",
		Level: "model_checking",
		Rule: "case = (declared value list or none, data column, construction path New+Enums / ReadCSV+Types,EnumValues / ReadJSON+Enums / ConstString / New followed by GroupBy(e).Aggregate, i.e. the enum column as rebuilt for a key column). Small: every permutation of every non-empty subset of {a,b,c} (and no declaration) x every data column of 1-3 cells over {a,b,c,null,undeclared} x 3 paths (+ constant columns); " +
			"large: declared lists of 63,64,65,127,128,129,191,192,193,254,255 (accepted) and 256,300 (rejected) values in reverse-alphabetical declared order with data on ranks 0,1,62-65,126-129,190-193,253,254 and nulls; derived enums of cardinality 1,2,3,64,65,254,255 (accepted), 256,257,300 (clean Err). " +
			"Per accepted case: cells reproduce the data (never another string, null stays null); Filter with <,<=,>,>=,=,!= (and Inverse) against every declared constant / boundary rank follows the declared rank; an undeclared constant is an error (also on a frame without rows and as the last member of a saturated Or); the column against a second column of the same type (the data rotated by one) under all six comparators and Inverse; in/like/ilike select exactly the named boundary ranks; isnull/isnotnull; Sort in 4 flag combinations is ordered by declared rank. All cases non-trivial; distinct by content.",
		Assumptions: []string{
			"rank = position in the declared list (reference model/clause.go, checkSorted of C03)",
			"for derived enums only =, !=, in, like, isnull are checked (no order is declared)",
		},
		Bound: map[string]string{
			"quick":    "complete as described",
			"thorough": "same (the space is enumerated completely on every run)",
		},
		Run:    c17Run,
		Replay: replayAs(runEnumCase),
	})
}
