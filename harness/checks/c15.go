package checks

import (
	"bytes"
	"database/sql/driver"
	"encoding/json"
	"fmt"
	"io"
	"strings"
	"sync"

	"github.com/tobgu/qframe"
	qcsv "github.com/tobgu/qframe/config/csv"
	"github.com/tobgu/qframe/config/newqf"
	qsql "github.com/tobgu/qframe/config/sql"

	"verif/harness/core"
	"verif/harness/model"
	"verif/harness/sqlmem"
)

// C15 — I/O failures are reported, never swallowed or turned into partial data.

type faultCase struct {
	Entry string `json:"entry"` // ReadCSV ReadJSON ToCSV ToJSON ReadSQL ToSQL
	Input int    `json:"input"` // index into the entry point's input family
	// reader faults
	At    int    `json:"at"`              // byte offset (readers/short writes), call number (writers, driver)
	With  int    `json:"with,omitempty"`  // bytes delivered together with the error (readers)
	Chunk int    `json:"chunk,omitempty"` // read fragmentation: at most Chunk bytes per read (0 = everything)
	Cuts  []int  `json:"cuts,omitempty"`  // read fragmentation: chunk boundaries before the fault
	Short bool   `json:"short,omitempty"` // writer: short write at byte offset At instead of failing call number At
	Site  string `json:"site,omitempty"`  // driver: prepare query next exec
	// ErrKind (readers): 0 a plain error, 1 io.ErrUnexpectedEOF, 2 an error that wraps io.EOF (errors.Is(err, io.EOF) holds, err == io.EOF does not)
	ErrKind int `json:"err_kind,omitempty"`
	// IgnoreEmpty (ReadCSV): read with IgnoreEmptyLines(true) (documents with blank lines)
	IgnoreEmpty bool `json:"ignore_empty,omitempty"`
	// WithHeaders (ReadCSV): the document has no header line, the names are given with csv.Headers
	WithHeaders bool `json:"with_headers,omitempty"`
}

var c15ReaderErrs = []error{nil, io.ErrUnexpectedEOF, fmt.Errorf("connection reset while reading: %w", io.EOF)}

// faultWriter fails the At-th Write call (call mode) or accepts only the first At bytes in total (short mode).
type faultWriter struct {
	buf       bytes.Buffer
	calls     int
	failCall  int
	failByte  int
	delivered bool
}

func (w *faultWriter) Write(p []byte) (int, error) {
	call := w.calls
	w.calls++
	if w.failCall >= 0 && call >= w.failCall {
		w.delivered = true
		return 0, errInjected
	}
	if w.failByte >= 0 && w.buf.Len()+len(p) > w.failByte {
		n := w.failByte - w.buf.Len()
		if n < 0 {
			n = 0
		}
		w.buf.Write(p[:n])
		w.delivered = true
		return n, errInjected
	}
	w.buf.Write(p)
	return len(p), nil
}

func csvFaultDocs() []string {
	long := "k,v\n"
	for i := 0; i < 6; i++ {
		long += fmt.Sprintf("%d,\"x%d\"\n", i, i)
	}
	return []string{"x\n1\n", "x,y\n1,a\n2,b\n", "x,y\n1,a\n2,b", "x,y\n\"a\nb\",1\n\"c\"\"d\",2\n", "x,y\r\n1,a\r\n2,b\r\n3,c\r\n", "x\n", "x,y", long,
		// blank lines first, between and after the rows (index csvBlankDocs..): read with IgnoreEmptyLines too
		"a,b\n\n1,2\n3,4\n", "a,b\n1,2\n\n3,4\n", "a,b\n1,2\n3,4\n\n", "a\n\n1\n\n\n2\n",
		// ragged documents: rows with more and with fewer fields than the header
		"a,b\n1,2,3\n4,5\n", "a,b\n1,2\n3,4,5,6\n", "a,b,c\n1,2\n",
		// long documents (index csvLongDocsFrom..): rows longer than the reader's 1 KiB / 2 KiB / 4 KiB buffer sizes
		"id,s\n1," + strings.Repeat("p", 1100) + "\n2,q\n", "id,s,t\n1,x," + strings.Repeat("r", 2100) + "\n2,y,z\n3,w,v\n",
		"id,s\n1,\"" + strings.Repeat("u", 4200) + "\"\n2,q\n",
		// fields that start or end with blanks and tabs, blanks before a quote, lines and documents that start with bytes
		// a reader might give a meaning to (comment characters, NUL, a byte order mark)
		"name,city\nbob, NYC\nann, LA\n", "a,b\n1, \"x,y\"\n2,  z\n", "a,b\n 1,\t2\n3 , 4 \n", "a,b\n#c,1\n\x00d,2\n", "\ufeffa,b\n1,2\n", "a,b\n1, \n ,2\n"}
}

func csvHeaderlessDocs() []string {
	return []string{"1,2\n3,4\n5,6\n", "1,x\n", "\"a\nb\",1\n2,\"c\"\n"}
}

func jsonFaultDocs() []string {
	return []string{`[{"a":1,"b":"x"}]`, `[{"a":1.5,"b":null},{"a":2,"b":"y"},{"a":3,"b":"z"}]`, `[]`, "[{\"a\":true}]\n",
		`[{"a":"}]"},{"a":"[{"}]`, " [ {\"a\" : 1 } ,\n {\"a\" : 2 } ] "}
}

var (
	c15framesOnce sync.Once
	c15frames     []qframe.QFrame
)

func faultFrames() []qframe.QFrame {
	c15framesOnce.Do(func() { c15frames = buildFaultFrames() })
	return c15frames
}

func buildFaultFrames() []qframe.QFrame {
	// wide frames without string columns: 900 int / 700 bool+float columns (a header line and rows of more than 4 KiB)
	wide := map[string]interface{}{}
	wide2 := map[string]interface{}{}
	var wideNames, wide2Names []string
	for c := 0; c < 900; c++ {
		n := fmt.Sprintf("c%03d", c)
		wide[n] = []int{100000 + c, -c, 7}
		wideNames = append(wideNames, n)
		if c < 700 {
			if c%2 == 0 {
				wide2[n] = []bool{true, false, c%3 == 0}
			} else {
				wide2[n] = []float64{float64(c) + 0.125, -1e10, 0}
			}
			wide2Names = append(wide2Names, n)
		}
	}
	big := make([]string, 400)
	for i := range big {
		big[i] = fmt.Sprintf("value-%04d-%s", i, strings.Repeat("p", i%17))
	}
	bigInts := make([]int, 400)
	return []qframe.QFrame{
		qframe.New(map[string]interface{}{"a": []int{}, "b": []string{}}),
		qframe.New(map[string]interface{}{"a": []int{1}, "b": []string{"x"}}),
		qframe.New(map[string]interface{}{"a": []int{1, 2, 3}, "b": []string{"x", "y,\"z\"", "w\nv"}, "f": []float64{1.5, 2.5, 3}}),
		qframe.New(map[string]interface{}{"s": big, "i": bigInts}), // CSV larger than the 4096-byte bufio buffer of encoding/csv
		qframe.New(map[string]interface{}{"a": []int{1, 2, 3}}).Sort(qframe.Order{Column: "a", Reverse: true}).Slice(0, 2),
		qframe.New(wide, newqf.ColumnOrder(wideNames...)),
		qframe.New(wide2, newqf.ColumnOrder(wide2Names...)),
		qframe.New(map[string]interface{}{"a": []int{1, 2, 3}, "b": []bool{true, false, true}, "f": []float64{1.5, 2.5, -3}}),
	}
}

func resultSets() [][][]driver.Value {
	return [][][]driver.Value{
		{},
		{{int64(1), "a", 1.5, true}},
		{{int64(1), "a", 1.5, true}, {int64(2), "b", 2.5, false}},
		{{int64(1), "a", 1.5, true}, {int64(2), nil, nil, false}, {int64(3), "c", 3.5, true}},
	}
}

var resultCols = []string{"i", "s", "f", "b"}

// noPartialData: a frame that reports a read failure hands out no cells: Len() is -1 and every typed view of
// every column the source has is refused.
func noPartialData(q qframe.QFrame, names []string, what string) *core.Failure {
	if q.Err == nil {
		return nil
	}
	if q.Len() != -1 {
		return core.Failf("%s: the failed frame has Len() %d", what, q.Len())
	}
	for _, n := range names {
		if v, err := q.IntView(n); err == nil {
			return core.Failf("%s: the failed frame hands out %d int cells of column %q (partial data)", what, v.Len(), n)
		}
		if v, err := q.FloatView(n); err == nil {
			return core.Failf("%s: the failed frame hands out %d float cells of column %q (partial data)", what, v.Len(), n)
		}
		if v, err := q.BoolView(n); err == nil {
			return core.Failf("%s: the failed frame hands out %d bool cells of column %q (partial data)", what, v.Len(), n)
		}
		if v, err := q.StringView(n); err == nil {
			return core.Failf("%s: the failed frame hands out %d string cells of column %q (partial data)", what, v.Len(), n)
		}
		if v, err := q.EnumView(n); err == nil {
			return core.Failf("%s: the failed frame hands out %d enum cells of column %q (partial data)", what, v.Len(), n)
		}
	}
	return nil
}

func runFaultCase(c faultCase) *core.Failure {
	switch c.Entry {
	case "ReadCSV", "ReadJSON":
		docs := csvFaultDocs()
		if c.Entry == "ReadJSON" {
			docs = jsonFaultDocs()
		}
		if c.Entry == "ReadCSV" && c.Input >= 100 {
			// documents without a header line (column names through csv.Headers)
			docs, c.Input, c.WithHeaders = csvHeaderlessDocs(), c.Input-100, true
		}
		doc := []byte(docs[c.Input])
		rd := &schedReader{doc: doc, failAt: c.At, failWith: c.With, maxChunk: c.Chunk, cuts: c.Cuts, failErr: c15ReaderErrs[c.ErrKind%len(c15ReaderErrs)]}
		var q qframe.QFrame
		var csvOpts []qcsv.ConfigFunc
		if c.IgnoreEmpty {
			csvOpts = append(csvOpts, qcsv.IgnoreEmptyLines(true))
		}
		if c.WithHeaders {
			csvOpts = append(csvOpts, qcsv.Headers([]string{"a", "b"}))
		}
		if c.Entry == "ReadCSV" {
			// a short history: a read that fails on its content (a row with too many fields), from a reader that
			// hands over its last bytes together with io.EOF; nothing of it may reach the next read
			if bad := qframe.ReadCSV(&schedReader{doc: []byte("x,y\n1,2,3\n"), failAt: -1, eofWithData: true}); bad.Err == nil {
				return core.Failf("ReadCSV accepted a row with more fields than the header")
			}
		}
		if c.Entry == "ReadCSV" {
			q = qframe.ReadCSV(rd, csvOpts...)
		} else {
			q = qframe.ReadJSON(rd)
		}
		delivered := rd.deliveredFault()
		if f := noPartialData(q, []string{"x", "y", "a", "b", "k", "v", "id", "s", "t", "name", "city"}, fmt.Sprintf("%s(%q) with the reader failing at byte %d", c.Entry, doc, c.At)); f != nil {
			return f
		}
		what := fmt.Sprintf("%s(%q) with the reader failing at byte %d with error kind %d (%d bytes delivered with the error, chunk %d, cuts %v)", c.Entry, doc, c.At, c.ErrKind, c.With, c.Chunk, c.Cuts)
		if delivered && q.Err == nil {
			// A JSON document is self-delimiting: when the reader hands over the last bytes of the
			// complete document together with the error, the decoder never has to read again and no
			// input is lost. Accepted iff the result is the complete fault-free result.
			complete := false
			if c.Entry == "ReadJSON" && json.Valid(doc[:rd.pos]) {
				full := qframe.ReadJSON(bytes.NewReader(doc))
				complete = full.Err == nil && model.Observe(full).String() == model.Observe(q).String()
			}
			if !complete {
				return core.Failf("%s: the reader returned an error but the call reports none; result: %s", what, model.Observe(q))
			}
		}
		if q.Err == nil {
			// the fault was never reached: the result must be the complete fault-free result
			var full qframe.QFrame
			if c.Entry == "ReadCSV" {
				full = qframe.ReadCSV(bytes.NewReader(doc), csvOpts...)
			} else {
				full = qframe.ReadJSON(bytes.NewReader(doc))
			}
			if full.Err == nil && model.Observe(full).String() != model.Observe(q).String() {
				return core.Failf("%s: error-free result differs from the fault-free result:\n got %s\nwant %s", what, model.Observe(q), model.Observe(full))
			}
		}
		return nil
	case "ToCSV", "ToJSON":
		q := faultFrames()[c.Input]
		w := &faultWriter{failCall: -1, failByte: -1}
		if c.Short {
			w.failByte = c.At
		} else {
			w.failCall = c.At
		}
		var err error
		var ref bytes.Buffer
		if c.Entry == "ToCSV" {
			err = q.ToCSV(w)
			_ = q.ToCSV(&ref)
		} else {
			err = q.ToJSON(w)
			_ = q.ToJSON(&ref)
		}
		what := fmt.Sprintf("%s(frame %d) with the writer failing at %d (short=%v)", c.Entry, c.Input, c.At, c.Short)
		if w.delivered && err == nil {
			return core.Failf("%s: the writer returned an error but the call returned nil (%d of %d bytes accepted)", what, w.buf.Len(), ref.Len())
		}
		if err == nil && !bytes.Equal(w.buf.Bytes(), ref.Bytes()) {
			return core.Failf("%s: success reported although the writer accepted %d of %d bytes", what, w.buf.Len(), ref.Len())
		}
		return nil
	case "ReadSQL":
		st := sqlmem.NewStore()
		st.ResultCols = resultCols
		st.ResultRows = resultSets()[c.Input]
		switch c.Site {
		case "prepare":
			st.FailPrepare = true
		case "query":
			st.FailQuery = true
		case "next":
			st.FailNextAt = c.At
		}
		db := sqlmem.Open(st)
		defer db.Close()
		tx, err := db.Begin()
		if err != nil {
			return core.Failf("begin: %v", err)
		}
		q := qframe.ReadSQL(tx, qsql.Query("SELECT whatever"))
		_ = tx.Rollback()
		what := fmt.Sprintf("ReadSQL(result set %d) with the driver failing at %s %d", c.Input, c.Site, c.At)
		if st.Delivered && q.Err == nil {
			return core.Failf("%s: the driver returned an error but the call reports none; result has %d of %d rows", what, q.Len(), len(st.ResultRows))
		}
		if q.Err == nil && q.Len() != len(st.ResultRows) && len(st.ResultRows) > 0 {
			return core.Failf("%s: error-free frame with %d rows, the result set has %d", what, q.Len(), len(st.ResultRows))
		}
		return noPartialData(q, resultCols, what)
	case "ToSQL":
		q := faultFrames()[c.Input]
		st := sqlmem.NewStore()
		switch c.Site {
		case "prepare":
			st.FailPrepare = true
		case "exec":
			st.FailExecAt = c.At
		}
		db := sqlmem.Open(st)
		defer db.Close()
		tx, err := db.Begin()
		if err != nil {
			return core.Failf("begin: %v", err)
		}
		err = q.ToSQL(tx, qsql.Table("t"))
		_ = tx.Rollback()
		what := fmt.Sprintf("ToSQL(frame %d) with the driver failing at %s %d", c.Input, c.Site, c.At)
		if st.Delivered && err == nil {
			return core.Failf("%s: the driver returned an error but ToSQL returned nil", what)
		}
		if err == nil && len(st.Execs) != q.Len() {
			return core.Failf("%s: success reported but %d of %d rows were written", what, len(st.Execs), q.Len())
		}
		return nil
	}
	return core.Failf("unknown entry %q", c.Entry)
}

// deliveredFault: the reader has returned the injected error to its caller.
func (r *schedReader) deliveredFault() bool { return r.faultReturned }

func c15Run(ctx *core.Ctx) {
	exec := func(c faultCase, reached string) {
		ctx.Exec(c, func() *core.Failure { return runFaultCase(c) })
		ctx.Outcome(c.Entry + "/" + reached)
		ctx.Nontrivial(fmt.Sprintf("%+v", c))
		if ctx.WantSample() && ctx.Index()%211 == 7 {
			ctx.Sample(c)
		}
	}
	chunks := []int{0, 1, 2, 3, 5, 7}
	for hi, doc := range csvHeaderlessDocs() {
		for at := 0; at <= len(doc); at++ {
			for _, with := range []int{0, 1} {
				for _, ch := range []int{0, 1, 3} {
					for ek := range c15ReaderErrs {
						if with <= at && ctx.Mine() {
							exec(faultCase{Entry: "ReadCSV", Input: 100 + hi, At: at, With: with, Chunk: ch, ErrKind: ek, WithHeaders: true}, "reader-fault-headers-option")
						}
					}
				}
			}
		}
	}
	for _, entry := range []string{"ReadCSV", "ReadJSON"} {
		docs := csvFaultDocs()
		if entry == "ReadJSON" {
			docs = jsonFaultDocs()
		}
		for di, doc := range docs {
			if len(doc) > 1000 {
				// long documents: every fault offset, whole / 7-byte / 1 KiB reads, two error values; no cut sets
				for at := 0; at <= len(doc); at++ {
					for _, with := range []int{0, 1} {
						for _, ch := range []int{0, 7, 1024} {
							for _, ek := range []int{0, 2} {
								if with <= at && ctx.Mine() {
									exec(faultCase{Entry: entry, Input: di, At: at, With: with, Chunk: ch, ErrKind: ek}, "reader-fault-long-row")
								}
							}
						}
					}
				}
				continue
			}
			for at := 0; at <= len(doc); at++ {
				for _, with := range []int{0, 1, 2} {
					if with > at {
						continue
					}
					for _, ch := range chunks {
						for ek := range c15ReaderErrs {
							if ek > 0 && ch > 1 {
								continue // the other error values: whole reads and byte-wise reads
							}
							if ctx.Mine() {
								exec(faultCase{Entry: entry, Input: di, At: at, With: with, Chunk: ch, ErrKind: ek}, "reader-fault")
							}
							if entry == "ReadCSV" && strings.Contains(doc, "\n\n") && ctx.Mine() {
								exec(faultCase{Entry: entry, Input: di, At: at, With: with, Chunk: ch, ErrKind: ek, IgnoreEmpty: true}, "reader-fault-ignore-empty-lines")
							}
						}
					}
					// one (thorough: two) fragmentation deviations before the fault: every cut position
					for c1 := 1; c1 < at-with; c1++ {
						if ctx.Mine() {
							exec(faultCase{Entry: entry, Input: di, At: at, With: with, Cuts: []int{c1}}, "reader-fault+cut")
						}
						if ctx.Quick() || len(doc) > 30 {
							continue
						}
						for c2 := c1 + 1; c2 < at-with; c2++ {
							if ctx.Mine() {
								exec(faultCase{Entry: entry, Input: di, At: at, With: with, Cuts: []int{c1, c2}}, "reader-fault+2cuts")
							}
						}
					}
				}
			}
		}
	}
	frames := faultFrames()
	for _, entry := range []string{"ToCSV", "ToJSON"} {
		for fi, q := range frames {
			var ref bytes.Buffer
			cw := &faultWriter{failCall: -1, failByte: -1}
			if entry == "ToCSV" {
				_ = q.ToCSV(&ref)
				_ = q.ToCSV(cw)
			} else {
				_ = q.ToJSON(&ref)
				_ = q.ToJSON(cw)
			}
			for call := 0; call <= cw.calls; call++ {
				if ctx.Mine() {
					exec(faultCase{Entry: entry, Input: fi, At: call}, "writer-call-fault")
				}
			}
			step := 1
			if ref.Len() > 600 {
				step = 37
				if !ctx.Quick() {
					step = 5
				}
			}
			for b := 0; b < ref.Len(); b += step {
				if ctx.Mine() {
					exec(faultCase{Entry: entry, Input: fi, At: b, Short: true}, "writer-short-write")
				}
			}
		}
	}
	for ri, rs := range resultSets() {
		for _, site := range []string{"prepare", "query"} {
			if ctx.Mine() {
				exec(faultCase{Entry: "ReadSQL", Input: ri, Site: site}, "driver-"+site)
			}
		}
		for at := 0; at <= len(rs)+1; at++ {
			if ctx.Mine() {
				exec(faultCase{Entry: "ReadSQL", Input: ri, Site: "next", At: at}, "driver-next")
			}
		}
	}
	for fi, q := range frames {
		if fi == 3 && ctx.Quick() {
			continue
		}
		if ctx.Mine() {
			exec(faultCase{Entry: "ToSQL", Input: fi, Site: "prepare"}, "driver-prepare")
		}
		for at := 0; at <= q.Len(); at++ {
			if ctx.Mine() {
				exec(faultCase{Entry: "ToSQL", Input: fi, Site: "exec", At: at}, "driver-exec")
			}
		}
	}
}

func init() {
	core.Register(&core.Check{
		ID:    "C15",
		Level: "fault_enumeration",
		Rule: "case = (entry point, input, fault position[, read fragmentation]). Readers: for each of 8 CSV and 6 JSON documents an io.Reader that fails at EVERY byte offset 0..L (L = error instead of EOF), returning 0, 1 or 2 bytes together with the error, under single-read and 1,2,3,5,7-byte fragmentation and with every single cut (thorough: every pair of cuts) before the fault; " +
			"writers: for each of 5 frames (one whose CSV exceeds encoding/csv's 4096-byte buffer) an io.Writer failing at EVERY Write call of the fault-free trace and a short write at every byte offset (every 37th/5th for the large output); " +
			"driver: Prepare, Query, Rows.Next at every row incl. instead of EOF for 4 result sets, Exec at every statement for every frame. Oracle: if the injected fault was actually returned to the code under test, the call must report an error; an error-free result must equal the complete fault-free result; never a panic. All cases non-trivial (every one injects a fault); distinct by content.",
		Assumptions: []string{
			"faults are permanent from the given position on (the reader/writer/driver keeps failing)",
			"ReadJSON: an error handed over together with the final bytes of a complete (self-delimiting) document need not be reported if the result is complete",
			"Commit is not exercised (qframe never calls it)",
		},
		Bound: map[string]string{
			"quick":    "all positions; read fragmentation {single read, 1, 2, 3, 5, 7 bytes, every single cut}; every 37th short-write offset on the large output",
			"thorough": "adds every pair of cuts before the fault (documents <= 30 bytes); every 5th short-write offset on the large output",
		},
		Run:    c15Run,
		Replay: replayAs(runFaultCase),
	})
}
