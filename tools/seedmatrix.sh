#!/bin/bash
# Runs every registered quick check (the two slow ones only for their own seeds) against every sub-agent seed via overlay builds.
cd "$(dirname "$0")/.."
ALL="C01 C02 C03 C04 C05 C06 C07 C08 C09 C10 C13 C14 C15 C16 C17 C18 C19"
for id in C01 C02 C03 C04 C05 C06 C07 C08 C09 C10 C11 C12 C13 C14 C15 C16 C17 C18 C19; do
  for x in A B; do
    checks="$ALL"; [ $id = C11 ] && checks="$ALL C11"; [ $id = C12 ] && checks="$ALL C12"
    tools/mutant_ov.sh /tmp/wtout/$id/patch$x.diff quick $checks 2>&1 | grep "^MUTANT" | awk -v s="$id$x" '{print s, $3, $5}'
  done
done
