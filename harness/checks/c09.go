package checks

import (
	"bytes"
	"encoding/json"
	"fmt"
	"math"
	"sort"
	"strconv"
	"strings"

	"github.com/tobgu/qframe"
	qcsv "github.com/tobgu/qframe/config/csv"
	"github.com/tobgu/qframe/config/groupby"

	"verif/harness/core"
	"verif/harness/model"
)

// C09 — All observations of a frame agree and Equals means cell-wise equality.

// family collects every non-error frame reachable within depth steps of the
// C01 alphabet from the given initial frame, each with the path that built it.
type famFrame struct {
	qf   qframe.QFrame
	path []histStep
}

func c09Family(init, depth int) []famFrame {
	e := newHistEnv()
	ops := c01Ops()
	fam := []*member{newFrameMember(e.initial(init), "initial")}
	var out []famFrame
	out = append(out, famFrame{qf: fam[0].qf})
	var path []histStep
	var dfs func(d int)
	dfs = func(d int) {
		if d == depth {
			return
		}
		nfam := len(fam)
		for mi := 0; mi < nfam; mi++ {
			m := fam[mi]
			if m.isErr {
				continue
			}
			for oi, op := range ops {
				if op.on != m.kind || strings.HasPrefix(op.name, "To") || op.name == "String" || strings.HasPrefix(op.name, "Equals") || strings.Contains(op.name, "View") {
					continue
				}
				path = append(path, histStep{Member: mi, Op: oi, Name: op.name})
				added := op.apply(e, fam, m)
				fam = append(fam, added...)
				for _, a := range added {
					if a.kind == mFrame && !a.isErr {
						out = append(out, famFrame{qf: a.qf, path: append([]histStep(nil), path...)})
					}
				}
				dfs(d + 1)
				fam = fam[:nfam]
				path = path[:len(path)-1]
			}
		}
	}
	dfs(0)
	return out
}

// rebuildFrame replays a path on fresh objects and returns the frame created by its last step.
func c09Rebuild(init int, path []histStep, which int) (qframe.QFrame, error) {
	e := newHistEnv()
	ops := c01Ops()
	fam := []*member{newFrameMember(e.initial(init), "initial")}
	if len(path) == 0 {
		return fam[0].qf, nil
	}
	var last []*member
	for _, s := range path {
		if s.Member >= len(fam) || s.Op >= len(ops) || ops[s.Op].on != fam[s.Member].kind {
			return qframe.QFrame{}, fmt.Errorf("path diverged")
		}
		last = ops[s.Op].apply(e, fam, fam[s.Member])
		fam = append(fam, last...)
	}
	if which >= len(last) {
		return qframe.QFrame{}, fmt.Errorf("path diverged: no result %d", which)
	}
	return last[which].qf, nil
}

type obsCase struct {
	Init  int        `json:"init"`
	Path  []histStep `json:"path"`
	Which int        `json:"which"`
	Big   bool       `json:"big,omitempty"` // the 60-row frame
	// Perm: the initial frame Init laid out physically in this permutation (logical order restored by Sort)
	Perm []int `json:"perm,omitempty"`
	// pair check: second frame
	Pair   bool       `json:"pair,omitempty"`
	Init2  int        `json:"init2,omitempty"`
	Path2  []histStep `json:"path2,omitempty"`
	Which2 int        `json:"which2,omitempty"`
	Twin   string     `json:"twin,omitempty"` // mutation applied to the rebuilt twin: "", cell, name, type, order, same
	// congruence: operation index applied to frame and twin
	CongOp int  `json:"cong_op,omitempty"`
	Cong   bool `json:"cong,omitempty"`
}

func cellText(k model.Kind, c model.Cell, na string) string {
	switch k {
	case model.Int:
		return strconv.Itoa(c.I)
	case model.Float:
		if math.IsNaN(c.F) {
			return na
		}
		return strconv.FormatFloat(c.F, 'f', -1, 64)
	case model.Bool:
		return strconv.FormatBool(c.B)
	default:
		if c.Null {
			return na
		}
		return c.S
	}
}

// textDenotes reports whether a CSV field denotes the cell's value (by value,
// not by spelling: any text that parses back to the identical value is fine).
func textDenotes(k model.Kind, c model.Cell, text string) bool {
	switch k {
	case model.Int:
		v, err := strconv.Atoi(text)
		return err == nil && v == c.I
	case model.Float:
		if math.IsNaN(c.F) {
			return text == ""
		}
		v, err := strconv.ParseFloat(text, 64)
		return err == nil && math.Float64bits(v) == math.Float64bits(c.F)
	case model.Bool:
		v, err := strconv.ParseBool(text)
		return err == nil && v == c.B
	default:
		if c.Null {
			return text == ""
		}
		return text == c.S
	}
}

// checkObservers compares every way of observing qf with the typed views' ItemAt.
func checkObservers(qf qframe.QFrame) *core.Failure {
	o := model.Observe(qf)
	if o.Err {
		return nil
	}
	if qf.Len() != o.N {
		return core.Failf("Len %d", qf.Len())
	}
	names := qf.ColumnNames()
	for i, c := range o.Cols {
		// views: Len, Slice vs ItemAt
		var sl []string
		switch c.Kind {
		case model.Int:
			v := qf.MustIntView(c.Name)
			if v.Len() != o.N {
				return core.Failf("IntView(%s).Len()=%d, frame Len()=%d", c.Name, v.Len(), o.N)
			}
			for _, x := range v.Slice() {
				sl = append(sl, model.CellString(model.Int, model.I(x)))
			}
		case model.Float:
			v := qf.MustFloatView(c.Name)
			if v.Len() != o.N {
				return core.Failf("FloatView(%s).Len()=%d, frame Len()=%d", c.Name, v.Len(), o.N)
			}
			for _, x := range v.Slice() {
				sl = append(sl, model.CellString(model.Float, model.F(x)))
			}
		case model.Bool:
			v := qf.MustBoolView(c.Name)
			if v.Len() != o.N {
				return core.Failf("BoolView(%s).Len()=%d, frame Len()=%d", c.Name, v.Len(), o.N)
			}
			for _, x := range v.Slice() {
				sl = append(sl, model.CellString(model.Bool, model.B(x)))
			}
		case model.String:
			v := qf.MustStringView(c.Name)
			if v.Len() != o.N {
				return core.Failf("StringView(%s).Len()=%d, frame Len()=%d", c.Name, v.Len(), o.N)
			}
			for _, x := range v.Slice() {
				if x == nil {
					sl = append(sl, "null")
				} else {
					sl = append(sl, strconv.Quote(*x))
				}
			}
		case model.Enum:
			v := qf.MustEnumView(c.Name)
			if v.Len() != o.N {
				return core.Failf("EnumView(%s).Len()=%d, frame Len()=%d", c.Name, v.Len(), o.N)
			}
			for _, x := range v.Slice() {
				if x == nil {
					sl = append(sl, "null")
				} else {
					sl = append(sl, strconv.Quote(*x))
				}
			}
		}
		if len(sl) != len(c.Cells) {
			return core.Failf("View(%s).Slice() has %d items, Len %d", c.Name, len(sl), len(c.Cells))
		}
		for r := range sl {
			if sl[r] != model.CellString(c.Kind, c.Cells[r]) {
				return core.Failf("View(%s): Slice()[%d]=%s but ItemAt(%d)=%s", c.Name, r, sl[r], r, model.CellString(c.Kind, c.Cells[r]))
			}
		}
		if names[i] != c.Name || !qf.Contains(c.Name) {
			return core.Failf("ColumnNames/Contains disagree on %q", c.Name)
		}
		if tm := qf.ColumnTypeMap(); string(tm[c.Name]) != string(c.Kind) || len(tm) != len(o.Cols) {
			return core.Failf("ColumnTypeMap disagrees with ColumnTypes on %q: %v", c.Name, tm)
		}
	}
	if len(o.Cols) == 0 {
		return nil
	}
	// ToCSV
	var buf bytes.Buffer
	if err := qf.ToCSV(&buf); err != nil {
		return core.Failf("ToCSV error: %v", err)
	}
	recs, err := model.ParseCSV(buf.Bytes(), ',', false)
	if err != nil {
		return core.Failf("ToCSV output does not parse: %v: %q", err, buf.String())
	}
	if len(recs) != o.N+1 {
		return core.Failf("ToCSV wrote %d records, want header + %d rows: %q", len(recs), o.N, buf.String())
	}
	for i, c := range o.Cols {
		if len(recs[0]) != len(o.Cols) || recs[0][i] != c.Name {
			return core.Failf("ToCSV header %v, want %v", recs[0], o.Names())
		}
		for r := 0; r < o.N; r++ {
			if len(recs[r+1]) != len(o.Cols) {
				return core.Failf("ToCSV row %d has %d fields", r, len(recs[r+1]))
			}
			if !textDenotes(c.Kind, c.Cells[r], recs[r+1][i]) {
				return core.Failf("ToCSV row %d column %s: %q, views say %q\n frame: %s", r, c.Name, recs[r+1][i], cellText(c.Kind, c.Cells[r], ""), o)
			}
		}
	}
	// ToCSV with the writer's options: columns rotated by one (a cyclic order, not its own inverse) and no header
	if len(o.Cols) >= 2 {
		rot := append(append([]string{}, o.Names()[1:]...), o.Names()[0])
		buf.Reset()
		if err := qf.ToCSV(&buf, qcsv.Columns(rot), qcsv.Header(false)); err != nil {
			return core.Failf("ToCSV(Columns %v, Header false) error: %v", rot, err)
		}
		recs, err := model.ParseCSV(buf.Bytes(), ',', false)
		if err != nil {
			return core.Failf("ToCSV(Columns %v) output does not parse: %v: %q", rot, err, buf.String())
		}
		if len(recs) != o.N {
			return core.Failf("ToCSV(Columns %v, Header false) wrote %d records, want %d rows: %q", rot, len(recs), o.N, buf.String())
		}
		for i, name := range rot {
			c, _, _ := o.Col(name)
			for r := 0; r < o.N; r++ {
				if len(recs[r]) != len(rot) || !textDenotes(c.Kind, c.Cells[r], recs[r][i]) {
					return core.Failf("ToCSV(Columns %v, Header false) row %d field %d (column %s): record %q, views say %q\n frame: %s", rot, r, i, name, recs[r], cellText(c.Kind, c.Cells[r], ""), o)
				}
			}
		}
	}
	// ToJSON
	buf.Reset()
	if err := qf.ToJSON(&buf); err != nil {
		return core.Failf("ToJSON error: %v", err)
	}
	if f := checkJSONTokens(buf.Bytes(), o); f != nil {
		return f
	}
	// String
	if f := checkStringRender(qf.String(), o); f != nil {
		return f
	}
	return nil
}

// checkJSONTokens walks the token stream: one object per row in row order, keys in column order.
func checkJSONTokens(out []byte, o model.Frame) *core.Failure {
	if !json.Valid(out) {
		return core.Failf("ToJSON output is not valid JSON: %q", out)
	}
	dec := json.NewDecoder(bytes.NewReader(out))
	dec.UseNumber()
	tok := func() (json.Token, *core.Failure) {
		t, err := dec.Token()
		if err != nil {
			return nil, core.Failf("ToJSON token error: %v in %q", err, out)
		}
		return t, nil
	}
	expectDelim := func(d rune) *core.Failure {
		t, f := tok()
		if f != nil {
			return f
		}
		if dl, ok := t.(json.Delim); !ok || rune(dl) != d {
			return core.Failf("ToJSON: expected %q, got %v in %q", d, t, out)
		}
		return nil
	}
	if f := expectDelim('['); f != nil {
		return f
	}
	for r := 0; r < o.N; r++ {
		if f := expectDelim('{'); f != nil {
			return f
		}
		for _, c := range o.Cols {
			k, f := tok()
			if f != nil {
				return f
			}
			if ks, ok := k.(string); !ok || ks != c.Name {
				return core.Failf("ToJSON row %d: key %v, want %q (column order) in %q", r, k, c.Name, out)
			}
			v, f := tok()
			if f != nil {
				return f
			}
			cell := c.Cells[r]
			ok := false
			switch c.Kind {
			case model.Int:
				n, isN := v.(json.Number)
				ok = isN && n.String() == strconv.Itoa(cell.I)
			case model.Float:
				if math.IsNaN(cell.F) {
					ok = v == nil
				} else if n, isN := v.(json.Number); isN {
					p, err := strconv.ParseFloat(n.String(), 64)
					ok = err == nil && (math.Float64bits(p) == math.Float64bits(cell.F))
				}
			case model.Bool:
				b, isB := v.(bool)
				ok = isB && b == cell.B
			default:
				if cell.Null {
					ok = v == nil
				} else {
					s, isS := v.(string)
					ok = isS && s == cell.S
				}
			}
			if !ok {
				return core.Failf("ToJSON row %d column %s: value %v (%T), views say %s\n output: %q", r, c.Name, v, v, model.CellString(c.Kind, cell), out)
			}
		}
		if f := expectDelim('}'); f != nil {
			return f
		}
	}
	if f := expectDelim(']'); f != nil {
		return f
	}
	return nil
}

// checkStringRender parses the fixed-width table printed by String().
func checkStringRender(s string, o model.Frame) *core.Failure {
	lines := strings.Split(s, "\n")
	if len(lines) < 2 {
		return core.Failf("String(): too few lines: %q", s)
	}
	header := lines[0]
	// column widths from the header tokens (names in these frames contain no blanks)
	toks := strings.Fields(header)
	if len(toks) != len(o.Cols) {
		return core.Failf("String(): header %q has %d fields, want %d columns", header, len(toks), len(o.Cols))
	}
	widths := make([]int, len(o.Cols))
	pos := 0
	for i, c := range o.Cols {
		want := c.Name + "(" + string(c.Kind)[:1] + ")"
		if toks[i] != want {
			return core.Failf("String(): header field %q, want %q", toks[i], want)
		}
		// field i spans from pos to the end of token i in the header line
		idx := strings.Index(header[pos:], toks[i])
		widths[i] = idx + len(toks[i])
		pos += widths[i] + 1
	}
	shown := o.N
	if shown > 50 {
		shown = 50
	}
	if len(lines) < 2+shown {
		return core.Failf("String(): %d lines for %d rows: %q", len(lines), o.N, s)
	}
	for r := 0; r < shown; r++ {
		line := lines[2+r]
		p := 0
		for i, c := range o.Cols {
			if p+widths[i] > len(line) {
				return core.Failf("String(): row %d too short: %q", r, line)
			}
			got := strings.TrimLeft(line[p:p+widths[i]], " ")
			p += widths[i] + 1
			want := cellText(c.Kind, c.Cells[r], "null")
			if len(want) > widths[i] {
				want = want[:widths[i]-3] + "..."
			}
			want = strings.TrimLeft(want, " ")
			if got != want {
				return core.Failf("String(): row %d column %s shows %q, views say %q\n%s", r, c.Name, got, want, s)
			}
		}
	}
	rest := strings.Join(lines[2+shown:], "\n")
	if o.N > 50 && !strings.Contains(rest, "truncated") {
		return core.Failf("String(): more than 50 rows but no truncation notice")
	}
	if !strings.Contains(rest, fmt.Sprintf("Dims = %d x %d", len(o.Cols), o.N)) {
		return core.Failf("String(): dims line missing or wrong: %q", rest)
	}
	return nil
}

// modelEquals is cell-wise equality as the statement defines it.
func modelEquals(a, b model.Frame) bool {
	if a.N != b.N || len(a.Cols) != len(b.Cols) {
		return false
	}
	for i := range a.Cols {
		ca, cb := a.Cols[i], b.Cols[i]
		if ca.Name != cb.Name || ca.Kind != cb.Kind {
			return false
		}
		for r := range ca.Cells {
			x, y := ca.Cells[r], cb.Cells[r]
			switch ca.Kind {
			case model.Float:
				if !(x.F == y.F || (math.IsNaN(x.F) && math.IsNaN(y.F))) {
					return false
				}
			default:
				if !model.CellEq(ca.Kind, x, y) {
					return false
				}
			}
		}
	}
	return true
}

func checkEqualsPair(a, b qframe.QFrame) *core.Failure {
	oa, ob := model.Observe(a), model.Observe(b)
	if oa.Err || ob.Err {
		return nil
	}
	want := modelEquals(oa, ob)
	got, reason := a.Equals(b)
	if got != want {
		return core.Failf("Equals(a,b)=%v (%s) but cell-wise equality is %v\n a: %s\n b: %s", got, reason, want, oa, ob)
	}
	got2, _ := b.Equals(a)
	if got2 != got {
		return core.Failf("Equals is not symmetric: a.Equals(b)=%v, b.Equals(a)=%v\n a: %s\n b: %s", got, got2, oa, ob)
	}
	return nil
}

// twin rebuilds the frame with New from its observed values, optionally mutated.
func twin(o model.Frame, mut string) (qframe.QFrame, bool) {
	t := o.Clone()
	switch mut {
	case "cell":
		done := false
		for ci := range t.Cols {
			if len(t.Cols[ci].Cells) == 0 {
				continue
			}
			c := &t.Cols[ci].Cells[len(t.Cols[ci].Cells)-1]
			switch t.Cols[ci].Kind {
			case model.Int:
				*c = model.I(c.I + 1)
			case model.Float:
				if math.IsNaN(c.F) {
					*c = model.F(0)
				} else {
					*c = model.NaN()
				}
			case model.Bool:
				*c = model.B(!c.B)
			case model.String:
				if c.Null {
					*c = model.S("")
				} else {
					*c = model.Null()
				}
			case model.Enum:
				if c.Null {
					continue
				}
				*c = model.Null()
			}
			done = true
			break
		}
		if !done {
			return qframe.QFrame{}, false
		}
	case "nanbits":
		// every NaN cell by a NaN of another bit pattern (the quiet NaN arithmetic yields vs math.NaN()): still Equal
		done := false
		for ci := range t.Cols {
			if t.Cols[ci].Kind != model.Float {
				continue
			}
			for ri, c := range t.Cols[ci].Cells {
				if math.IsNaN(c.F) {
					bits := uint64(0xFFF8000000000000)
					if math.Float64bits(c.F) == bits {
						bits = 0x7FF8000000000001
					}
					t.Cols[ci].Cells[ri] = model.F(math.Float64frombits(bits))
					done = true
				}
			}
		}
		if !done {
			return qframe.QFrame{}, false
		}
	case "name":
		if len(t.Cols) == 0 {
			return qframe.QFrame{}, false
		}
		t.Cols[0].Name = t.Cols[0].Name + "x"
	case "type":
		done := false
		for ci := range t.Cols {
			if t.Cols[ci].Kind == model.String {
				t.Cols[ci].Kind = model.Enum
				t.Cols[ci].EnumVals = nil
				done = true
				break
			}
			if t.Cols[ci].Kind == model.Enum {
				t.Cols[ci].Kind = model.String
				done = true
				break
			}
		}
		if !done {
			return qframe.QFrame{}, false
		}
	case "order":
		if len(t.Cols) < 2 {
			return qframe.QFrame{}, false
		}
		t.Cols[0], t.Cols[1] = t.Cols[1], t.Cols[0]
	case "enumperm", "enumswap":
		// a declared enum type with the same values in another order: "enumperm" keeps the cells
		// (Equal), "enumswap" also maps the cells through the permutation so that the internal
		// codes coincide with the original's while the strings differ (not Equal)
		done := false
		for ci := range t.Cols {
			if t.Cols[ci].Kind != model.Enum {
				continue
			}
			var vals []string
			for _, c := range t.Cols[ci].Cells {
				if !c.Null && !containsStr(vals, c.S) {
					vals = append(vals, c.S)
				}
			}
			if len(vals) < 2 {
				continue
			}
			sort.Strings(vals)
			rev := make([]string, len(vals))
			for i, v := range vals {
				rev[len(vals)-1-i] = v
			}
			if mut == "enumswap" {
				for ri, c := range t.Cols[ci].Cells {
					if !c.Null {
						for i, v := range vals {
							if v == c.S {
								t.Cols[ci].Cells[ri] = model.S(rev[i])
							}
						}
					}
				}
			}
			// the original declares its values in sorted order in these frames; the twin in reverse order
			t.Cols[ci].EnumVals = rev
			done = true
		}
		if !done {
			return qframe.QFrame{}, false
		}
		q := model.Build(t)
		return q, q.Err == nil
	}
	for ci := range t.Cols {
		if t.Cols[ci].Kind == model.Enum && mut != "type" {
			t.Cols[ci].EnumVals = nil // derived enum: a different enum type with the same elements
		}
	}
	q := model.Build(t)
	return q, q.Err == nil
}

// c09InitModel is the model form of the C01 initial frame (declared enum values adopted).
func c09InitModel(init int) model.Frame {
	o := model.Observe(newHistEnv().initial(init))
	o.AdoptMeta(model.Frame{Cols: []model.Col{{Name: "e", Kind: model.Enum, EnumVals: c01EnumVals}}})
	return o
}

func c09BigFrame() qframe.QFrame {
	n := 320 // more than 50 rows (String truncation) and JSON/CSV output well above 4 KiB
	is := make([]int, n)
	ss := make([]*string, n)
	fs := make([]float64, n)
	for i := range is {
		is[i] = (i * 37) % 61
		switch {
		case i%7 == 3:
			fs[i] = math.NaN()
		case i%11 == 5:
			fs[i] = 9223372036854775808 * float64(1+i%3) // whole numbers beyond the int64 range
		case i%13 == 6:
			fs[i] = -9.5e18
		case i%17 == 9:
			// shortest representations of exactly 10 digits on both sides of 2^32, 9 and 11 digits, long zero runs
			fs[i] = []float64{5000000001, 61234567.89, 4294967296, 9876543210, 3.141592653, 2147483648, 4294967295, 999999999, 12345678901, 3e40, 1.000000001e-05}[(i/17)%11]
		default:
			fs[i] = float64(i) / 4
		}
		if i%5 != 2 {
			s := strings.Repeat("w", i%9) + strconv.Itoa(i)
			if i%19 == 7 {
				// bytes that serialisers have to escape, at the end of strings of different lengths
				s += []string{"\x1f", "\"", "\\", "\n", "\x00", "\u2028", "\x7f", ",", "'"}[(i/19)%9]
			}
			ss[i] = &s
		}
	}
	return qframe.New(map[string]interface{}{"i": is, "f": fs, "s": ss}).Sort(qframe.Order{Column: "i"})
}

func (c obsCase) frames() (qframe.QFrame, qframe.QFrame, error) {
	var a, b qframe.QFrame
	var err error
	if c.Big {
		a = c09BigFrame()
	} else if c.Perm != nil {
		a = model.BuildPermuted(c09InitModel(c.Init), c.Perm)
	} else if a, err = c09Rebuild(c.Init, c.Path, c.Which); err != nil {
		return a, b, err
	}
	if c.Pair {
		if c.Twin != "" {
			t, ok := twin(model.Observe(a), strings.TrimPrefix(c.Twin, "twin-"))
			if !ok {
				return a, b, fmt.Errorf("twin not constructible")
			}
			b = t
		} else if b, err = c09Rebuild(c.Init2, c.Path2, c.Which2); err != nil {
			return a, b, err
		}
	}
	return a, b, nil
}

func runObsCase(c obsCase) *core.Failure {
	a, b, err := c.frames()
	if err != nil {
		return core.Failf("replay: %v", err)
	}
	switch {
	case c.Cong:
		return checkCongruence(a, c.CongOp)
	case c.Pair:
		return checkEqualsPair(a, b)
	}
	return checkObservers(a)
}

// congExtra: operations applied in the congruence check in addition to the C01 alphabet. They
// concentrate on the enum column, whose stored representation (codes into a value table) can
// drift away from the observed strings, and on grouping/aggregation (a Grouper is not a frame, so
// the one-step operations of the alphabet never reach Aggregate).
type congExtraOp struct {
	name      string
	unordered bool // row order of the result is unspecified
	needsDecl bool // depends on the declared enum order: skipped when the twin's enum is derived
	run       func(q qframe.QFrame) []qframe.QFrame
}

func congExtras() []congExtraOp {
	byE := func(q qframe.QFrame, cmp string, inverse bool) []qframe.QFrame {
		// one filter per distinct observed value of e (a value that does not occur is an error or not
		// depending on whether the enum is strict, which no observer shows: not used)
		var out []qframe.QFrame
		if !q.Contains("e") {
			return nil
		}
		seen := map[string]bool{}
		var vals []string
		if v, err := q.EnumView("e"); err == nil {
			for i := 0; i < v.Len(); i++ {
				if p := v.ItemAt(i); p != nil && !seen[*p] {
					seen[*p] = true
					vals = append(vals, *p)
				}
			}
		} else if v, err := q.StringView("e"); err == nil {
			for i := 0; i < v.Len(); i++ {
				if p := v.ItemAt(i); p != nil && !seen[*p] {
					seen[*p] = true
					vals = append(vals, *p)
				}
			}
		}
		for _, val := range vals {
			out = append(out, q.Filter(qframe.Filter{Column: "e", Comparator: cmp, Arg: val, Inverse: inverse}))
		}
		return out
	}
	one := func(f func(q qframe.QFrame) qframe.QFrame) func(q qframe.QFrame) []qframe.QFrame {
		return func(q qframe.QFrame) []qframe.QFrame { return []qframe.QFrame{f(q)} }
	}
	return []congExtraOp{
		{name: "Filter(e = v) for every observed v", run: func(q qframe.QFrame) []qframe.QFrame { return byE(q, "=", false) }},
		{name: "Filter(e != v) for every observed v", run: func(q qframe.QFrame) []qframe.QFrame { return byE(q, "!=", false) }},
		{name: "Filter(e like v) for every observed v", run: func(q qframe.QFrame) []qframe.QFrame { return byE(q, "like", false) }},
		{name: "Filter(e < v) for every observed v", needsDecl: true, run: func(q qframe.QFrame) []qframe.QFrame { return byE(q, "<", false) }},
		{name: "Filter(e in all observed)", run: one(func(q qframe.QFrame) qframe.QFrame {
			if !q.Contains("e") {
				return q
			}
			var vals []string
			if v, err := q.EnumView("e"); err == nil {
				for i := 0; i < v.Len(); i++ {
					if p := v.ItemAt(i); p != nil {
						vals = append(vals, *p)
					}
				}
			}
			return q.Filter(qframe.Filter{Column: "e", Comparator: "in", Arg: vals})
		})},
		{name: "Distinct(e) projected on e", unordered: true, run: one(func(q qframe.QFrame) qframe.QFrame {
			return q.Distinct(groupby.Columns("e")).Select("e")
		})},
		{name: "Distinct(e, null) projected on e", unordered: true, run: one(func(q qframe.QFrame) qframe.QFrame {
			return q.Distinct(groupby.Columns("e"), groupby.Null(true)).Select("e")
		})},
		{name: "Distinct(s,e) projected on s,e", unordered: true, run: one(func(q qframe.QFrame) qframe.QFrame {
			return q.Distinct(groupby.Columns("s", "e"), groupby.Null(true)).Select("s", "e")
		})},
		{name: "GroupBy(e).Aggregate(sum i, count k)", unordered: true, run: one(func(q qframe.QFrame) qframe.QFrame {
			return q.GroupBy(groupby.Columns("e")).Aggregate(qframe.Aggregation{Fn: "sum", Column: "i"}, qframe.Aggregation{Fn: "count", Column: "k", As: "n"})
		})},
		{name: "GroupBy(e,null).Aggregate(sum i)", unordered: true, run: one(func(q qframe.QFrame) qframe.QFrame {
			return q.GroupBy(groupby.Columns("e"), groupby.Null(true)).Aggregate(qframe.Aggregation{Fn: "sum", Column: "i"})
		})},
		{name: "GroupBy(k,e).Aggregate(count i)", unordered: true, run: one(func(q qframe.QFrame) qframe.QFrame {
			return q.GroupBy(groupby.Columns("k", "e"), groupby.Null(true)).Aggregate(qframe.Aggregation{Fn: "count", Column: "i"})
		})},
		{name: "GroupBy(s).Aggregate(sum i)", unordered: true, run: one(func(q qframe.QFrame) qframe.QFrame {
			return q.GroupBy(groupby.Columns("s"), groupby.Null(true)).Aggregate(qframe.Aggregation{Fn: "sum", Column: "i"})
		})},
		{name: "GroupBy(f,null).Aggregate(count i)", unordered: true, run: one(func(q qframe.QFrame) qframe.QFrame {
			return q.GroupBy(groupby.Columns("f"), groupby.Null(true)).Aggregate(qframe.Aggregation{Fn: "count", Column: "i"})
		})},
		{name: "Apply(ToUpper e->e).Distinct(e) projected on e", unordered: true, run: one(func(q qframe.QFrame) qframe.QFrame {
			return q.Apply(qframe.Instruction{Fn: "ToUpper", DstCol: "e", SrcCol1: "e"}).Distinct(groupby.Columns("e")).Select("e")
		})},
		{name: "Eval(e2 = upper(e)) then Filter(e2 = v) for every v", run: func(q qframe.QFrame) []qframe.QFrame {
			u := q.Apply(qframe.Instruction{Fn: "ToUpper", DstCol: "e", SrcCol1: "e"})
			return byE(u, "=", false)
		}},
	}
}

// totalSort sorts by all columns (to compare results whose row order is unspecified).
func totalSort(q qframe.QFrame) qframe.QFrame {
	var ord []qframe.Order
	for _, n := range q.ColumnNames() {
		ord = append(ord, qframe.Order{Column: n})
	}
	if len(ord) == 0 {
		return q
	}
	return q.Sort(ord...)
}

// checkCongruence: the frame and its New-rebuilt twin give Equal results under operation op
// (an index into the C01 alphabet, or beyond it into congExtras).
func checkCongruence(a qframe.QFrame, opIdx int) *core.Failure {
	oa := model.Observe(a)
	if oa.Err {
		return nil
	}
	// keep declared enum values where the twin can know them; a column whose cells no longer fit the
	// declaration (e.g. after ToUpper) is rebuilt as an enum derived from the data
	withDecl := oa.Clone()
	withDecl.AdoptMeta(model.Frame{Cols: []model.Col{{Name: "e", Kind: model.Enum, EnumVals: c01EnumVals}}})
	t := model.Build(withDecl)
	derivedTwin := false
	if t.Err != nil {
		t = model.Build(oa)
		derivedTwin = true
		if t.Err != nil {
			return nil
		}
	} else {
		oa = withDecl
	}
	if eq, why := a.Equals(t); !eq {
		return core.Failf("frame rebuilt with New from the observed values is not Equal: %s\n frame: %s", why, oa)
	}
	ops := c01Ops()
	if opIdx >= len(ops) {
		ex := congExtras()[opIdx-len(ops)]
		if ex.needsDecl && derivedTwin {
			return nil
		}
		r1, r2 := ex.run(a), ex.run(t)
		if len(r1) != len(r2) {
			return core.Failf("%s produced %d results on the frame and %d on its twin\n frame: %s", ex.name, len(r1), len(r2), oa)
		}
		for i := range r1 {
			x, y := r1[i], r2[i]
			if (x.Err != nil) != (y.Err != nil) {
				return core.Failf("%s (result %d): Err differs between frame (%v) and twin (%v)\n frame: %s", ex.name, i, x.Err, y.Err, oa)
			}
			if x.Err != nil {
				continue
			}
			if ex.unordered {
				x, y = totalSort(x), totalSort(y)
				if derivedTwin && x.Contains("e") {
					// the two enum types order their values differently: compare as sets of rows
					ox, oy := model.Observe(x), model.Observe(y)
					if d := diffRowSets(ox, oy); d != "" {
						return core.Failf("%s (result %d): results on the frame and on its Equal twin differ as sets of rows: %s\n frame:  %s\n result: %s\n twin's: %s", ex.name, i, d, oa, ox, oy)
					}
					continue
				}
			}
			if eq, why := x.Equals(y); !eq {
				return core.Failf("%s (result %d): results on the frame and on its Equal twin are not Equal (%s)\n frame:  %s\n result: %s\n twin's: %s", ex.name, i, why, oa, model.Observe(x), model.Observe(y))
			}
		}
		return nil
	}
	op := ops[opIdx]
	if derivedTwin && strings.HasPrefix(op.name, "Sort(e") {
		return nil // the derived twin orders its enum values differently
	}
	e1, e2 := newHistEnv(), newHistEnv()
	m1, m2 := newFrameMember(a, "f"), newFrameMember(t, "twin")
	r1 := op.apply(e1, []*member{m1}, m1)
	r2 := op.apply(e2, []*member{m2}, m2)
	if len(r1) != len(r2) {
		return core.Failf("%s produced %d results on the frame and %d on its twin", op.name, len(r1), len(r2))
	}
	for i := range r1 {
		if r1[i].kind != mFrame {
			continue
		}
		x, y := r1[i].qf, r2[i].qf
		if (x.Err != nil) != (y.Err != nil) {
			return core.Failf("%s: Err differs between frame (%v) and twin (%v)\n frame: %s", op.name, x.Err, y.Err, oa)
		}
		if x.Err != nil {
			continue
		}
		if strings.HasPrefix(op.name, "Sort") {
			// ties may come out in any order: instead of comparing the two results, each must be a
			// permutation of its input ordered by the keys (C03's predicate, here on derived frames)
			ords := []ordSpec{{Col: "k"}}
			if op.name != "Sort(k)" {
				ords = []ordSpec{{Col: "e", Reverse: true, NullLast: true}, {Col: "i"}}
			}
			for which, pair := range [][2]qframe.QFrame{{a, x}, {t, y}} {
				in, out := model.Observe(pair[0]), model.Observe(pair[1])
				in.AdoptMeta(oa)
				out.AdoptMeta(oa)
				if f := checkSorted(in, out, ords); f != nil {
					f.Msg = fmt.Sprintf("%s on %s: ", op.name, []string{"the derived frame", "its New-rebuilt twin"}[which]) + f.Msg
					return f
				}
			}
			// ... and the two results are Equal: which of the tied rows comes first is not specified, but it is a
			// function of the frame's rows, not of how they are stored ("yields Equal results under every operation")
			if eq, why := x.Equals(y); !eq {
				return core.Failf("%s: both results are ordered by the keys, but the result on the frame and the result on its Equal twin are not Equal (%s): the order of tied rows depends on the physical layout\n frame:  %s\n result: %s\n twin's: %s", op.name, why, oa, model.Observe(x), model.Observe(y))
			}
			continue
		}
		if strings.HasPrefix(op.name, "Distinct") {
			// which representative is kept is unspecified, the set of keys is not: compare the key columns
			if op.name == "Distinct(k)" {
				x, y = x.Select("k"), y.Select("k")
			}
			ox, oy := model.Observe(totalSort(x)), model.Observe(totalSort(y))
			if d := diffRowSets(ox, oy); d != "" {
				return core.Failf("%s: key sets on the frame and on its Equal twin differ: %s\n frame:  %s\n result: %s\n twin's: %s", op.name, d, oa, ox, oy)
			}
			continue
		}
		if strings.HasPrefix(op.name, "Aggregate") {
			x, y = totalSort(x), totalSort(y)
		}
		if eq, why := x.Equals(y); !eq {
			return core.Failf("%s: results on the frame and on its Equal twin are not Equal (%s)\n frame:  %s\n result: %s\n twin's: %s", op.name, why, oa, model.Observe(x), model.Observe(y))
		}
	}
	return nil
}

// diffRowSets compares two observed frames as multisets of rows.
func diffRowSets(a, b model.Frame) string {
	if a.Err || b.Err {
		if a.Err != b.Err {
			return "one of them is an error"
		}
		return ""
	}
	if a.N != b.N {
		return fmt.Sprintf("%d rows vs %d rows", a.N, b.N)
	}
	rows := func(f model.Frame) []string {
		out := make([]string, f.N)
		for r := 0; r < f.N; r++ {
			var sb strings.Builder
			for _, c := range f.Cols {
				sb.WriteString(c.Name + "=" + model.CellString(c.Kind, c.Cells[r]) + ";")
			}
			out[r] = sb.String()
		}
		sort.Strings(out)
		return out
	}
	ra, rb := rows(a), rows(b)
	for i := range ra {
		if ra[i] != rb[i] {
			return fmt.Sprintf("row %q vs %q", ra[i], rb[i])
		}
	}
	return ""
}

func c09Run(ctx *core.Ctx) {
	depth := 3
	pairDepth := 1
	if !ctx.Quick() {
		pairDepth = 2
	}
	ops := c01Ops()
	for _, init := range []int{0, 1, 2, 3, 5} {
		fam := c09Family(init, depth)
		ctx.Add("family_frames", int64(len(fam))/int64(ctx.NShards))
		// per-frame observer agreement
		whichOf := func(i int) int {
			// position of this frame among the results of its last step (QFrames yields two)
			w := 0
			for j := i - 1; j >= 0 && len(fam[j].path) == len(fam[i].path) && samePath(fam[j].path, fam[i].path); j-- {
				w++
			}
			return w
		}
		for i, ff := range fam {
			if !ctx.Mine() {
				continue
			}
			c := obsCase{Init: init, Path: ff.path, Which: whichOf(i)}
			qf := ff.qf
			ctx.Exec(c, func() *core.Failure { return checkObservers(qf) })
			o := model.Observe(qf)
			ctx.Nontrivial(o.String())
			ctx.Outcome(fmt.Sprintf("observers/%dcols", len(o.Cols)))
			if ctx.WantSample() && ctx.Index()%211 == 5 {
				ctx.Sample(map[string]interface{}{"init": init, "path": pathString(ff.path), "frame": o.String()})
			}
			// twins
			for _, mut := range []string{"same", "cell", "name", "type", "order", "enumperm", "enumswap", "nanbits"} {
				t, ok := twin(o, mut)
				if !ok {
					continue
				}
				pc := obsCase{Init: init, Path: ff.path, Which: c.Which, Pair: true, Twin: "twin-" + mut}
				ctx.Exec(pc, func() *core.Failure { return checkEqualsPair(qf, t) })
				ctx.Outcome("equals/twin-" + mut)
			}
			// congruence under every frame operation (one level deeper than the pair check: a derived
			// frame may carry hidden state that its New-rebuilt twin does not have)
			if len(ff.path) <= pairDepth+1 {
				for oi, op := range ops {
					if op.on != mFrame || strings.Contains(op.name, "View") || strings.HasPrefix(op.name, "To") || op.name == "String" || strings.HasPrefix(op.name, "Equals") || strings.HasPrefix(op.name, "GroupBy") {
						continue
					}
					cc := obsCase{Init: init, Path: ff.path, Which: c.Which, Cong: true, CongOp: oi}
					oi := oi
					ctx.Exec(cc, func() *core.Failure { return checkCongruence(qf, oi) })
					ctx.Outcome("congruence")
				}
				for xi := range congExtras() {
					oi := len(ops) + xi
					cc := obsCase{Init: init, Path: ff.path, Which: c.Which, Cong: true, CongOp: oi}
					ctx.Exec(cc, func() *core.Failure { return checkCongruence(qf, oi) })
					ctx.Outcome("congruence-extra")
				}
			}
		}
		// Equals on every ordered pair of the family up to pairDepth
		var small []int
		for i, ff := range fam {
			if len(ff.path) <= pairDepth {
				small = append(small, i)
			}
		}
		for _, i := range small {
			for _, j := range small {
				if !ctx.Mine() {
					continue
				}
				a, b := fam[i], fam[j]
				c := obsCase{Init: init, Path: a.path, Which: whichOf(i), Pair: true, Init2: init, Path2: b.path, Which2: whichOf(j)}
				eq := false
				ctx.Exec(c, func() *core.Failure {
					f := checkEqualsPair(a.qf, b.qf)
					if f == nil {
						eq, _ = a.qf.Equals(b.qf)
					}
					return f
				})
				if eq {
					ctx.Outcome("equals/true")
					if i != j {
						ctx.Nontrivial(fmt.Sprintf("eqpair/%d/%d/%d", init, i, j))
					}
				} else {
					ctx.Outcome("equals/false")
				}
			}
		}
	}
	// every physical arrangement of the 5-row and 4-row initial frames (all permutations)
	for _, init := range []int{0, 3} {
		m := c09InitModel(init)
		forEachPerm(m.N, func(p []int) {
			if !ctx.Mine() {
				return
			}
			perm := cloneInts(p)
			c := obsCase{Init: init, Perm: perm}
			qf := model.BuildPermuted(m, perm)
			ctx.Exec(c, func() *core.Failure { return checkObservers(qf) })
			ctx.Outcome("observers/permuted-layout")
			ctx.Nontrivial(fmt.Sprintf("perm/%d/%v", init, perm))
			for _, mut := range []string{"same", "cell", "enumperm", "enumswap", "nanbits"} {
				if t, ok := twin(model.Observe(qf), mut); ok {
					pc := obsCase{Init: init, Perm: perm, Pair: true, Twin: "twin-" + mut}
					ctx.Exec(pc, func() *core.Failure { return checkEqualsPair(qf, t) })
				}
			}
		})
	}
	if ctx.Mine() {
		ctx.Exec(obsCase{Big: true}, func() *core.Failure { return checkObservers(c09BigFrame()) })
		ctx.Outcome("observers/320rows")
	}
}

func samePath(a, b []histStep) bool {
	if len(a) != len(b) {
		return false
	}
	for i := range a {
		if a[i].Member != b[i].Member || a[i].Op != b[i].Op {
			return false
		}
	}
	return true
}

func init() {
	core.Register(&core.Check{
		ID: "C09",
		Setup: func() {
			for i := 0; i < 4; i++ {
				c09Family(i, 3)
			}
			c09BigFrame()
		},
		Level: "model_checking",
		Rule: "frames = every non-error frame reachable from 4 initial frames by <= D steps of the C01 operation alphabet (arbitrary physical indexes), plus every physical permutation of the 5-row and 4-row initial frames and a 320-row frame (output above 4 KiB). Per frame: Len, ColumnNames/Types/TypeMap/Contains, view Len/Slice vs ItemAt, ToCSV (parsed by a reference RFC 4180 parser), ToJSON (token stream), String (fixed-width parse) all compared with the typed views; " +
			"Equals vs cell-wise model equality and symmetry on the frame's New-rebuilt twin and six mutated twins (one cell / name / type / column order / enum declared in another order with the same cells / enum codes preserved but strings swapped), on every ordered pair of frames within depth P, and congruence (Equal twins give Equal results) under every frame operation. " +
			"Non-trivial/distinct = distinct frame observations; distinct pairs of different frames that are Equal.",
		Assumptions: []string{
			"typed views' ItemAt is the reference observation; the other observers are compared with it",
			"Equals model: same names in order, same types, pairwise equal cells (null=null, NaN=NaN, 0.0=-0.0, enum cells by string value); transitivity follows from agreement with this equivalence on all pairs",
			"column names in these frames contain no blanks (needed to parse String() output)",
		},
		Bound: map[string]string{
			"quick":    "family depth D=3 (per-frame checks), pair/congruence depth P=1",
			"thorough": "family depth D=3, pair/congruence depth P=2",
		},
		Run:    c09Run,
		Replay: replayAs(runObsCase),
	})
}
