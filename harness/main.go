package main

import (
	"fmt"
	"os"
	"strconv"

	"verif/harness/checks"
	"verif/harness/core"
)

func usage() int {
	fmt.Fprintf(os.Stderr, "usage: qfmc run <id> <quick|thorough> | worker <id> <tier> <shard> <n> <out> | replay <path> | list\n")
	return 2
}

func main() {
	if len(os.Args) < 2 {
		os.Exit(usage())
	}
	switch os.Args[1] {
	case "run":
		if len(os.Args) != 4 {
			os.Exit(usage())
		}
		self, err := os.Executable()
		if err != nil {
			fmt.Fprintln(os.Stderr, err)
			os.Exit(2)
		}
		os.Exit(core.RunMain(self, os.Args[2], os.Args[3]))
	case "worker":
		if len(os.Args) != 7 {
			os.Exit(usage())
		}
		shard, _ := strconv.Atoi(os.Args[4])
		n, _ := strconv.Atoi(os.Args[5])
		os.Exit(core.WorkerMain(os.Args[2], os.Args[3], shard, n, os.Args[6]))
	case "replay":
		if len(os.Args) != 3 {
			os.Exit(usage())
		}
		os.Exit(core.ReplayMain(os.Args[2]))
	case "racepass":
		// only meaningful in the -race build (bin/qfmc-race)
		tier, only := "quick", ""
		if len(os.Args) > 2 {
			tier = os.Args[2]
		}
		if len(os.Args) > 3 {
			only = os.Args[3]
		}
		os.Exit(checks.RacePassMain(tier, only))
	case "list":
		for _, id := range core.IDs() {
			fmt.Println(id)
		}
	default:
		os.Exit(usage())
	}
}
