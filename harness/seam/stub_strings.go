//go:build verif

package verifseam

const StringsAvailable = false

func ToUpper(buf *[]byte, s string) string { panic("strings seam unavailable") }
