package checks

import (
	"fmt"
	"sort"

	seam "github.com/tobgu/qframe/verifseam"

	"verif/harness/core"
)

// Layer 1 of C04/C05: the real hash table (internal/grouper) driven through
// its column.Comparable interface with harness-chosen hashes, so that every
// collision pattern is reachable deterministically.

type tableCase struct {
	Op        string   `json:"op"`         // groupby | distinct
	Keys      []int    `json:"keys"`       // key id per logical row, -1 = null
	Hashes    []uint64 `json:"hashes"`     // hash returned for each logical row
	GroupNull bool     `json:"group_null"` // nulls equal each other
	Layout    int      `json:"layout"`     // 0 identity, 1 reversed positions, 2 sparse positions
	// Gen: large cases are regenerated: "twice:<distinct>:<multiplier>" = keys 0..distinct-1 inserted twice in a row
	// (second pass after all growth steps) with hash = key * multiplier
	Gen string `json:"gen,omitempty"`
}

type tableComparable struct {
	key       map[uint32]int
	hash      map[uint32]uint64
	groupNull bool
	compares  *int
}

func (t tableComparable) Compare(i, j uint32) seam.CompareResult {
	*t.compares++
	a, aok := t.key[i]
	b, bok := t.key[j]
	if !aok || !bok {
		panic(fmt.Sprintf("Compare called with a position outside the index: %d,%d", i, j))
	}
	if a < 0 || b < 0 {
		if a < 0 && b < 0 && t.groupNull {
			return seam.Equal
		}
		if a < 0 && b < 0 {
			return seam.NotEqual
		}
		if a < 0 {
			return seam.LessThan
		}
		return seam.GreaterThan
	}
	if a < b {
		return seam.LessThan
	}
	if a > b {
		return seam.GreaterThan
	}
	return seam.Equal
}

func (t tableComparable) Hash(i uint32, seed uint64) uint64 {
	h, ok := t.hash[i]
	if !ok {
		panic(fmt.Sprintf("Hash called with a position outside the index: %d", i))
	}
	return h
}

func layoutPos(layout, n, r int) uint32 {
	switch layout {
	case 1:
		return uint32(n - 1 - r)
	case 2:
		return uint32(2*r + 1)
	}
	return uint32(r)
}

// modelPartition groups logical rows by key equality, groups in order of first row.
func modelPartition(keys []int, groupNull bool) [][]int {
	if len(keys) > 1000 {
		// large generated cases have no nulls: group by key with a map, groups in order of first row
		idx := map[int]int{}
		var groups [][]int
		for r, k := range keys {
			gi, ok := idx[k]
			if !ok {
				gi = len(groups)
				idx[k] = gi
				groups = append(groups, nil)
			}
			groups[gi] = append(groups[gi], r)
		}
		return groups
	}
	var groups [][]int
	for r, k := range keys {
		placed := false
		if k >= 0 || groupNull {
			for gi, g := range groups {
				if keys[g[0]] == k {
					groups[gi] = append(groups[gi], r)
					placed = true
					break
				}
			}
		}
		if !placed {
			groups = append(groups, []int{r})
		}
	}
	return groups
}

func runTableCase(c tableCase) *core.Failure {
	if !seam.GrouperAvailable || !seam.CoreAvailable {
		return nil // the internal grouper API changed: the table layer is skipped (noted in the evidence)
	}
	if c.Gen != "" {
		var distinct int
		var mult uint64
		fmt.Sscanf(c.Gen, "twice:%d:%d", &distinct, &mult)
		c.Keys = make([]int, 0, 2*distinct)
		c.Hashes = make([]uint64, 0, 2*distinct)
		for pass := 0; pass < 2; pass++ {
			for k := 0; k < distinct; k++ {
				c.Keys = append(c.Keys, k)
				c.Hashes = append(c.Hashes, uint64(k)*mult)
			}
		}
	}
	n := len(c.Keys)
	ix := make([]uint32, n)
	cmp := tableComparable{key: map[uint32]int{}, hash: map[uint32]uint64{}, groupNull: c.GroupNull, compares: new(int)}
	rowOf := map[uint32]int{}
	for r := 0; r < n; r++ {
		p := layoutPos(c.Layout, n, r)
		ix[r] = p
		cmp.key[p] = c.Keys[r]
		cmp.hash[p] = c.Hashes[r]
		rowOf[p] = r
	}
	want := modelPartition(c.Keys, c.GroupNull)
	ixCopy := append([]uint32(nil), ix...)
	if c.Op == "distinct" {
		got := seam.Distinct(ix, []seam.Comparable{cmp})
		if len(got) != len(want) {
			return core.Failf("Distinct returned %d rows, want %d classes (keys %v hashes %v): %v", len(got), len(want), c.Keys, c.Hashes, got)
		}
		seen := map[int]bool{}
		for _, p := range got {
			r, ok := rowOf[p]
			if !ok {
				return core.Failf("Distinct returned position %d which is not in the index", p)
			}
			// class of r
			cls := -1
			for gi, g := range want {
				for _, m := range g {
					if m == r {
						cls = gi
					}
				}
			}
			if seen[cls] {
				return core.Failf("Distinct returned two rows of the same key class (keys %v hashes %v): %v", c.Keys, c.Hashes, got)
			}
			seen[cls] = true
		}
	} else {
		groups, stats := seam.GroupBy(ix, []seam.Comparable{cmp})
		if stats.GroupCount != len(want) {
			return core.Failf("GroupCount %d, want %d (keys %v hashes %v)", stats.GroupCount, len(want), c.Keys, c.Hashes)
		}
		var got [][]int
		for _, g := range groups {
			var rows []int
			for _, p := range g {
				r, ok := rowOf[p]
				if !ok {
					return core.Failf("group contains position %d which is not in the index", p)
				}
				rows = append(rows, r)
			}
			got = append(got, rows)
		}
		sort.Slice(got, func(a, b int) bool { return got[a][0] < got[b][0] })
		if fmt.Sprint(got) != fmt.Sprint(want) {
			return core.Failf("groups differ (keys %v hashes %v groupNull %v layout %d):\n got %v\nwant %v", c.Keys, c.Hashes, c.GroupNull, c.Layout, got, want)
		}
	}
	for i := range ix {
		if ix[i] != ixCopy[i] {
			return core.Failf("%s modified the index it was given", c.Op)
		}
	}
	return nil
}

// forEachKeyPattern enumerates all restricted-growth key patterns of length n
// with nulls allowed (-1).
func forEachKeyPattern(n int, f func(keys []int, distinct int)) {
	keys := make([]int, n)
	var rec func(i, next int)
	rec = func(i, next int) {
		if i == n {
			f(keys, next)
			return
		}
		keys[i] = -1
		rec(i+1, next)
		for k := 0; k <= next; k++ {
			keys[i] = k
			nn := next
			if k == next {
				nn++
			}
			rec(i+1, nn)
		}
	}
	rec(0, 0)
}

var hashAlphabetFull = []uint64{0, 8, 16, 7, 15, 1 << 32}
var hashAlphabetSmall = []uint64{0, 8, 7, 1 << 32}

func tableLayerRun(ctx *core.Ctx, op string) {
	if !seam.GrouperAvailable || !seam.CoreAvailable {
		ctx.Note("the seam into internal/grouper does not compile against this tree (its internal API changed): the table layer is skipped, the public-API layers run")
		return
	}
	fullN, smallN := 5, 6
	if !ctx.Quick() {
		fullN, smallN = 6, 8
	}
	exec := func(c tableCase) {
		ctx.Exec(c, func() *core.Failure { return runTableCase(c) })
		coll := false
		for i := range c.Hashes {
			for j := i + 1; j < len(c.Hashes); j++ {
				if c.Keys[i] != c.Keys[j] && uint32(c.Hashes[i])&7 == uint32(c.Hashes[j])&7 {
					coll = true
				}
			}
		}
		if coll {
			ctx.Nontrivial(fmt.Sprintf("%s%v%v%v%d", c.Op, c.Keys, c.Hashes, c.GroupNull, c.Layout))
			ctx.Outcome("seam/colliding")
		} else {
			ctx.Outcome("seam/collision-free")
		}
		if ctx.WantSample() && ctx.Index()%4099 == 11 {
			ctx.Sample(c)
		}
	}
	for n := 0; n <= smallN; n++ {
		alpha := hashAlphabetFull
		if n > fullN {
			alpha = hashAlphabetSmall
		}
		for _, groupNull := range []bool{false, true} {
			forEachKeyPattern(n, func(keys []int, distinct int) {
				// hash slots: one per distinct key, one for all nulls (groupNull) or one per null row
				slotOf := make([]int, n)
				slots := distinct
				nullSlot := -1
				for r, k := range keys {
					if k >= 0 {
						slotOf[r] = k
					} else if groupNull {
						if nullSlot < 0 {
							nullSlot = slots
							slots++
						}
						slotOf[r] = nullSlot
					} else {
						slotOf[r] = slots
						slots++
					}
				}
				forEachSeq(slots, len(alpha), func(pick []int) {
					for layout := 0; layout < 3; layout++ {
						if !ctx.Mine() {
							continue
						}
						c := tableCase{Op: op, Keys: cloneInts(keys), GroupNull: groupNull, Layout: layout, Hashes: make([]uint64, n)}
						for r := range keys {
							c.Hashes[r] = alpha[pick[slotOf[r]]]
						}
						exec(c)
					}
				})
			})
		}
	}
	// growth: 5..11 distinct keys (8->16 at the 6th group, 16->32 at the 10th) with
	// <=2 repeated rows inserted at every position, six hash families
	maxK := 11
	families := []func(k int) uint64{
		func(k int) uint64 { return 0 },                      // all equal
		func(k int) uint64 { return uint64(k) << 3 },         // one bucket at size 8, spread later
		func(k int) uint64 { return uint64(k) },              // consecutive
		func(k int) uint64 { return uint64(k) + 6 },          // consecutive from bucket 6 (wrap-around)
		func(k int) uint64 { return uint64(k%2)*5 + 1<<32 },  // two clusters, high bits set
		func(k int) uint64 { return uint64(k) * 0x9E3779B1 }, // all distinct, scattered
		func(k int) uint64 { return uint64(k)<<32 | 3 },      // equal after truncation to 32 bits
	}
	for k := 5; k <= maxK; k++ {
		base := make([]int, k)
		for i := range base {
			base[i] = i
		}
		for fi, fam := range families {
			mk := func(keys []int) tableCase {
				c := tableCase{Op: op, Keys: cloneInts(keys), Hashes: make([]uint64, len(keys)), Layout: int(ctx.Index() % 3)}
				for r, key := range keys {
					c.Hashes[r] = fam(key)
				}
				return c
			}
			if ctx.Mine() {
				exec(mk(base))
				ctx.Outcome(fmt.Sprintf("seam/growth-family%d", fi))
			}
			// one repeated row: key d inserted at position p (after its first occurrence or before: any)
			for d := 0; d < k; d++ {
				for p := 0; p <= k; p++ {
					keys1 := insertAt(base, p, d)
					if ctx.Mine() {
						exec(mk(keys1))
					}
					if ctx.Quick() && (d+p)%3 != 0 {
						continue
					}
					for d2 := 0; d2 < k; d2 += 2 {
						for p2 := p + 1; p2 <= k+1; p2 += 2 {
							if !ctx.Mine() {
								continue
							}
							exec(mk(insertAt(keys1, p2, d2)))
						}
					}
				}
			}
		}
	}
}

// largeTableCases: tables that grow beyond 2^16 slots, every key looked up again after the last growth
func largeTableCases(ctx *core.Ctx, op string) {
	if !seam.GrouperAvailable || !seam.CoreAvailable {
		return
	}
	for _, distinct := range []int{40000, 70000} {
		for _, mult := range []uint64{0x9E3779B1, 1, 0x10001} {
			if !ctx.Mine() {
				continue
			}
			c := tableCase{Op: op, GroupNull: false, Gen: fmt.Sprintf("twice:%d:%d", distinct, mult)}
			ctx.Exec(c, func() *core.Failure { return runTableCase(c) })
			ctx.Outcome("seam/large-table")
			ctx.Nontrivial("large/" + c.Gen + op)
		}
	}
}

func insertAt(s []int, p, v int) []int {
	r := make([]int, 0, len(s)+1)
	r = append(r, s[:p]...)
	r = append(r, v)
	r = append(r, s[p:]...)
	// renumber to restricted growth so that "first occurrence" order is canonical
	m := map[int]int{}
	for i, x := range r {
		if _, ok := m[x]; !ok {
			m[x] = len(m)
		}
		r[i] = m[x]
	}
	return r
}
