package checks

import (
	"fmt"
	"sort"
	"strings"
	"unicode"

	"github.com/tobgu/qframe"
	"github.com/tobgu/qframe/config/newqf"
	seam "github.com/tobgu/qframe/verifseam"

	"verif/harness/core"
	"verif/harness/model"
)

// C18 — like/ilike match by the documented wildcard and case rules.

var c18Sigma = []string{"a", "A", "b", "\u00e9", "\u00c9", "\u00df", "\u0131", "\u017f", "\u0250", "\u0080", "\u212a", ".", "("}

type likeCase struct {
	Pattern string `json:"pattern"`
	Cmp     string `json:"cmp"`   // like | ilike
	Order   string `json:"order"` // asc desc interleaved seq
	Enum    bool   `json:"enum,omitempty"`
	Chunk   int    `json:"chunk,omitempty"` // enum: which chunk of 255 cells
	Rot     bool   `json:"rot,omitempty"`   // enum: the column with the rotated middle
	// Seq: explicit cell sequence (core cells in all sequences of 3); overrides Order
	Seq []string `json:"seq,omitempty"`
	// Upper: direct comparison of the zero-alloc ToUpper with strings.ToUpper over Seq with one shared buffer
	// Degenerate: the pattern is applied where no cell needs to be looked at: "zero" (no rows), "allnull",
	// "or-all" (an Or whose earlier sub-clause already selected every row), "filtered-null" (a frame filtered down to nulls)
	Degenerate string `json:"degenerate,omitempty"`
	Upper      bool   `json:"upper,omitempty"`
	BufLen     int    `json:"buf_len,omitempty"`
	// Sub: the filter runs on a frame derived from the column's frame, with far fewer rows than the
	// column has (distinct) values: "tail" Slice(n-10,n), "mid" Slice(n/2,n/2+8), "sorted-head"
	// Sort(id desc).Slice(0,9), "filtered" rows with id%13 == 5, "sorted-all" Sort(id desc) keeping every row
	Sub string `json:"sub,omitempty"`
	// Pattern2: the filter is Or(s cmp Pattern, s cmp Pattern2): rows selected by the first member stay selected
	Pattern2 string `json:"pattern2,omitempty"`
	HasP2    bool   `json:"has_p2,omitempty"`
	// Strict (enum): the enum column is declared over exactly its values (newqf.Enums with a value list)
	// instead of deriving them from the data: patterns are still patterns, not constants to validate
	Strict bool `json:"strict,omitempty"`
	// NotFirst (with HasP2): the filter is Or(Not(s cmp Pattern), s cmp Pattern2): a member that is a clause of its own,
	// not a plain filter (the members are then combined frame by frame)
	NotFirst bool `json:"not_first,omitempty"`
}

var c18cells []string

func c18Cells() []string {
	if c18cells != nil {
		return c18cells
	}
	var out []string
	var rec func(cur string, n int)
	rec = func(cur string, n int) {
		out = append(out, cur)
		if n == 0 {
			return
		}
		for _, s := range c18Sigma {
			rec(cur+s, n-1)
		}
	}
	rec("", 3)
	// lengths around the matcher's 10-byte scratch buffer and its len(s)+4 test
	for k := 4; k <= 14; k++ {
		for _, s := range c18Sigma {
			out = append(out, strings.Repeat("a", k)+s)
			out = append(out, s+strings.Repeat("b", k))
		}
	}
	// cells of characters that upper-casing leaves alone, ending in one that it changes (and widens or
	// narrows): the conversion starts writing at the very end of a buffer of exactly the cell's size
	for k := 4; k <= 18; k++ {
		for _, tail := range []string{"\u0250", "\u0131", "a", "\u017f"} {
			out = append(out, strings.Repeat("A", k)+tail, strings.Repeat("7", k)+tail)
		}
	}
	out = append(out, "42", "A b", `\d\d`, `\`, `a\`, "x7", `a\b`, `a\\`, "a%", `ba\`, `.\x`)
	c18cells = out
	return out
}

func orderCells(cells []string, order string) []string {
	c := append([]string(nil), cells...)
	switch order {
	case "asc":
		sort.SliceStable(c, func(i, j int) bool { return len(c[i]) < len(c[j]) })
	case "desc":
		sort.SliceStable(c, func(i, j int) bool { return len(c[i]) > len(c[j]) })
	case "interleaved":
		sort.SliceStable(c, func(i, j int) bool { return len(c[i]) < len(c[j]) })
		out := make([]string, 0, len(c))
		for i, j := 0, len(c)-1; i <= j; i, j = i+1, j-1 {
			out = append(out, c[i])
			if i != j {
				out = append(out, c[j])
			}
		}
		c = out
	}
	return c
}

type c18Frames struct {
	str  map[string]qframe.QFrame
	cell map[string][]string
	enum map[string][]qframe.QFrame
	// enumRot: per chunk a column with the same values, middle rotated
	enumRot map[string][]qframe.QFrame
	// enumStrict: per chunk the column declared over its values
	enumStrict map[string][]qframe.QFrame
}

var c18env *c18Frames

func c18Env() *c18Frames {
	if c18env != nil {
		return c18env
	}
	e := &c18Frames{str: map[string]qframe.QFrame{}, cell: map[string][]string{}, enum: map[string][]qframe.QFrame{}, enumRot: map[string][]qframe.QFrame{}, enumStrict: map[string][]qframe.QFrame{}}
	for _, order := range []string{"asc", "desc", "interleaved"} {
		cells := orderCells(c18Cells(), order)
		e.cell[order] = cells
		ptrs := make([]*string, 0, len(cells)+1)
		for i := range cells {
			ptrs = append(ptrs, &cells[i])
			if i == 5 {
				ptrs = append(ptrs, nil) // a null cell among them
			}
		}
		ids := make([]int, len(ptrs))
		for i := range ids {
			ids[i] = i
		}
		e.str[order] = qframe.New(map[string]interface{}{"s": ptrs, "id": ids})
		// chunks of 255 distinct values: the largest enum there is, every enum number 0..254 in use
		for start := 0; start < len(cells); start += 255 {
			end := start + 255
			if end > len(cells) {
				end = len(cells)
			}
			p := []*string{nil}
			for i := start; i < end; i++ {
				p = append(p, &cells[i])
			}
			id2 := make([]int, len(p))
			for i := range id2 {
				id2[i] = i
			}
			e.enum[order] = append(e.enum[order], qframe.New(map[string]interface{}{"s": p, "id": id2}, newqf.Enums(map[string][]string{"s": nil})))
			e.enumStrict[order] = append(e.enumStrict[order], qframe.New(map[string]interface{}{"s": p, "id": id2}, newqf.Enums(map[string][]string{"s": append([]string{}, cells[start:end]...)})))
			// the same values with the middle rotated by one: same cardinality, same first and last value,
			// other internal numbering (a result remembered for the first column must not be served for this one)
			if len(p) > 4 {
				rot := append([]*string{p[0], p[1]}, p[3:len(p)-1]...)
				rot = append(rot, p[2], p[len(p)-1])
				e.enumRot[order] = append(e.enumRot[order], qframe.New(map[string]interface{}{"s": rot, "id": id2}, newqf.Enums(map[string][]string{"s": nil})))
			} else {
				e.enumRot[order] = append(e.enumRot[order], e.enum[order][len(e.enum[order])-1])
			}
		}
	}
	c18env = e
	return e
}

func runLikeCase(c likeCase) *core.Failure {
	if c.Upper {
		if !seam.StringsAvailable {
			return nil // internal/strings API changed: the direct ToUpper layer is skipped
		}
		buf := make([]byte, c.BufLen)
		for i, s := range c.Seq {
			got := strings.Clone(seam.ToUpper(&buf, s))
			if want := strings.ToUpper(s); got != want {
				return core.Failf("ToUpper(buffer of %d bytes shared over the sequence %q): cell %d %q -> %q, strings.ToUpper gives %q", c.BufLen, c.Seq, i, s, got, want)
			}
		}
		return nil
	}
	if c.Degenerate != "" {
		return runLikeDegenerate(c)
	}
	var qf qframe.QFrame
	if c.Seq != nil {
		ptrs := make([]*string, len(c.Seq))
		ids := make([]int, len(c.Seq))
		for i := range c.Seq {
			ptrs[i] = &c.Seq[i]
			ids[i] = i
		}
		var opts []newqf.ConfigFunc
		if c.Enum {
			var decl []string
			if c.Strict {
				seen := map[string]bool{}
				for _, v := range c.Seq {
					if !seen[v] {
						seen[v] = true
						decl = append(decl, v)
					}
				}
			}
			opts = append(opts, newqf.Enums(map[string][]string{"s": decl}))
		}
		qf = qframe.New(map[string]interface{}{"s": ptrs, "id": ids}, opts...)
	} else {
		env := c18Env()
		if c.Enum {
			if c.Chunk >= len(env.enum[c.Order]) {
				return core.Failf("bad chunk")
			}
			qf = env.enum[c.Order][c.Chunk]
			if c.Strict {
				qf = env.enumStrict[c.Order][c.Chunk]
			}
			if c.Rot {
				qf = env.enumRot[c.Order][c.Chunk]
			}
		} else {
			qf = env.str[c.Order]
		}
	}
	if qf.Err != nil {
		return core.Failf("could not build column: %v", qf.Err)
	}
	if n := qf.Len(); c.Sub != "" {
		lim := func(x int) int {
			if x > n {
				return n
			}
			if x < 0 {
				return 0
			}
			return x
		}
		switch c.Sub {
		case "tail":
			qf = qf.Slice(lim(n-10), n)
		case "mid":
			qf = qf.Slice(lim(n/2), lim(n/2+8))
		case "sorted-head":
			qf = qf.Sort(qframe.Order{Column: "id", Reverse: true}).Slice(0, lim(9))
		case "sorted-all":
			qf = qf.Sort(qframe.Order{Column: "id", Reverse: true}) // every row kept, the index is a permutation
		default:
			qf = qf.Filter(qframe.Filter{Column: "id", Comparator: func(x int) bool { return x%13 == 5 }})
		}
		if qf.Err != nil {
			return core.Failf("could not derive the %s frame: %v", c.Sub, qf.Err)
		}
	}
	in := model.Observe(qf)
	// a short history: a filter that FAILS after an earlier member of its Or has already selected rows (an invalid
	// pattern behind a pattern matching everything), on this very frame, directly before
	if bad := qf.Filter(qframe.Or(qframe.Filter{Column: "s", Comparator: "like", Arg: "%"}, qframe.Filter{Column: "s", Comparator: c.Cmp, Arg: "(%"})); bad.Err == nil {
		return core.Failf("Or(s like %%, s %s \"(%%\") reported no error for the invalid pattern", c.Cmp)
	}
	res := qf.Filter(qframe.Filter{Column: "s", Comparator: c.Cmp, Arg: c.Pattern})
	if c.HasP2 {
		first := qframe.FilterClause(qframe.Filter{Column: "s", Comparator: c.Cmp, Arg: c.Pattern})
		if c.NotFirst {
			first = qframe.Not(first)
		}
		res = qf.Filter(qframe.Or(first, qframe.Filter{Column: "s", Comparator: c.Cmp, Arg: c.Pattern2}))
	}
	col, _, _ := in.Col("s")
	idc, _, _ := in.Col("id")
	var want []int
	var perr error
	for r, cell := range col.Cells {
		if cell.Null {
			if c.NotFirst && c.HasP2 {
				want = append(want, idc.Cells[r].I) // a null cell never matches, so it passes the negation
			}
			continue
		}
		m, err := model.LikeMatch(c.Pattern, cell.S, c.Cmp == "like")
		if c.NotFirst {
			m = !m
		}
		if err == nil && c.HasP2 {
			var m2 bool
			m2, err = model.LikeMatch(c.Pattern2, cell.S, c.Cmp == "like")
			m = m || m2
		}
		if err != nil {
			perr = err
			break
		}
		if m {
			want = append(want, idc.Cells[r].I)
		}
	}
	if perr == nil {
		// an invalid pattern is an error even when no cell is looked at
		_, perr = model.LikeMatch(c.Pattern, "", c.Cmp == "like")
	}
	if perr == nil && c.HasP2 {
		_, perr = model.LikeMatch(c.Pattern2, "", c.Cmp == "like")
	}
	what := fmt.Sprintf("Filter(s %s %q [or %q: %v]) on %s column (order %s chunk %d seq %q sub %q)", c.Cmp, c.Pattern, c.Pattern2, c.HasP2, map[bool]string{false: "string", true: "enum"}[c.Enum], c.Order, c.Chunk, c.Seq, c.Sub)
	if perr != nil {
		if res.Err == nil {
			return core.Failf("%s: the pattern is not a valid regular expression (%v) but no error was reported", what, perr)
		}
		return nil
	}
	if res.Err != nil {
		return core.Failf("%s: unexpected error %v", what, res.Err)
	}
	gv := res.MustIntView("id")
	var got []int
	for i := 0; i < gv.Len(); i++ {
		got = append(got, gv.ItemAt(i))
	}
	if fmt.Sprint(got) != fmt.Sprint(want) {
		// name the first differing cell
		gm := map[int]bool{}
		for _, g := range got {
			gm[g] = true
		}
		wm := map[int]bool{}
		for _, w := range want {
			wm[w] = true
		}
		for r, cell := range col.Cells {
			id := idc.Cells[r].I
			if gm[id] != wm[id] {
				return core.Failf("%s: cell %q (row %d): matched=%v, reference says %v", what, cell.S, r, gm[id], wm[id])
			}
		}
		return core.Failf("%s: rows differ in order: got %v want %v", what, got, want)
	}
	return nil
}

// runLikeDegenerate: validity of the pattern must be reported (and a valid pattern accepted) even
// when no cell is evaluated; string and enum columns must agree.
func runLikeDegenerate(c likeCase) *core.Failure {
	a, b := "ab", "cd"
	var ptrs []*string
	switch c.Degenerate {
	case "zero":
		ptrs = []*string{}
	case "allnull":
		ptrs = []*string{nil, nil}
	default:
		ptrs = []*string{&a, nil, &b}
	}
	ids := make([]int, len(ptrs))
	var opts []newqf.ConfigFunc
	if c.Enum {
		var decl []string
		if c.Strict {
			decl = []string{"cd", "ab"}
		}
		opts = append(opts, newqf.Enums(map[string][]string{"s": decl}))
	}
	qf := qframe.New(map[string]interface{}{"s": ptrs, "id": ids}, opts...)
	leaf := qframe.Filter{Column: "s", Comparator: c.Cmp, Arg: c.Pattern}
	var res qframe.QFrame
	switch c.Degenerate {
	case "or-all":
		res = qf.Filter(qframe.Or(qframe.Filter{Column: "id", Comparator: "=", Arg: 0}, leaf))
	case "filtered-null":
		res = qf.Filter(qframe.Filter{Column: "s", Comparator: "isnull"}).Filter(leaf)
	default:
		res = qf.Filter(leaf)
	}
	_, perr := model.LikeMatch(c.Pattern, "", c.Cmp == "like")
	what := fmt.Sprintf("Filter(s %s %q) on a %s column, degenerate case %s", c.Cmp, c.Pattern, map[bool]string{false: "string", true: "enum"}[c.Enum], c.Degenerate)
	if perr != nil && res.Err == nil {
		return core.Failf("%s: the pattern is not a valid regular expression (%v) but no error was reported", what, perr)
	}
	if perr == nil && res.Err != nil {
		return core.Failf("%s: unexpected error %v", what, res.Err)
	}
	return nil
}

func c18Patterns() []string {
	alpha := append(append([]string{}, c18Sigma...), "%")
	var out []string
	var rec func(cur string, n int)
	rec = func(cur string, n int) {
		out = append(out, cur)
		if n == 0 {
			return
		}
		for _, s := range alpha {
			rec(cur+s, n-1)
		}
	}
	rec("", 3)
	out = append(out, "%aaaaaaaaaa", "aaaaaaaaaaa%", "%AAAA\u00df%", "%bbbbbbbbbbbb%", "aaaaaaaaaaaaaa\u0131", "%a.%", "a|b", "[a", "a*", "%\u212a%", "%k%",
		// patterns whose only regular-expression metacharacter is the backslash
		`%\d%`, `\d\d`, `A\sb`, `\w`, `%\x41`, `7777\S`, `\\`, `a\`, `%\d\d\d\d\d%`,
		// backslashes directly in front of a leading / trailing %: an escaped backslash and a wildcard
		`a\\%`, `%a\\%`, `.\\%`, `\\%`, `%\\`, `%\\%`, `a\\\\%`, `a\%`, `%\%`, `\%`, `a\\\%`)
	return out
}

func c18Run(ctx *core.Ctx) {
	if !seam.StringsAvailable {
		ctx.Note("the seam into internal/strings does not compile against this tree: the direct ToUpper layer is skipped, the like/ilike layers run")
	}
	env := c18Env()
	exec := func(c likeCase, outcome string) {
		ctx.Exec(c, func() *core.Failure { return runLikeCase(c) })
		ctx.Outcome(outcome)
		ctx.Nontrivial(fmt.Sprintf("%+v", c))
		if ctx.WantSample() && ctx.Index()%2711 == 21 {
			ctx.Sample(c)
		}
	}
	pats := c18Patterns()
	ctx.Add("cells_per_filter", int64(len(c18Cells()))/int64(ctx.NShards))
	orders := []string{"asc", "desc", "interleaved"}
	for _, p := range pats {
		for _, cmp := range []string{"like", "ilike"} {
			for _, order := range orders {
				if ctx.Quick() && order != orders[(len(p)+len(cmp))%3] && strings.Count(p, "")-1 > 2 {
					continue // quick: 3-rune patterns on one cell order each
				}
				if ctx.Mine() {
					exec(likeCase{Pattern: p, Cmp: cmp, Order: order}, "string/"+cmp)
				}
				if order == "asc" {
					// the same filter on frames derived from the column's frame (few rows, many values)
					for _, sub := range []string{"tail", "mid", "sorted-head", "filtered", "sorted-all"} {
						if ctx.Mine() {
							exec(likeCase{Pattern: p, Cmp: cmp, Order: order, Sub: sub}, "string-sub/"+cmp)
						}
						for ch := range env.enum[order] {
							if ctx.Mine() {
								exec(likeCase{Pattern: p, Cmp: cmp, Order: order, Enum: true, Chunk: ch, Sub: sub}, "enum-sub/"+cmp)
							}
						}
					}
				}
				if order == "asc" || !ctx.Quick() {
					for ch := range env.enum[order] {
						if ctx.Mine() {
							exec(likeCase{Pattern: p, Cmp: cmp, Order: order, Enum: true, Chunk: ch}, "enum/"+cmp)
							if order == "asc" {
								exec(likeCase{Pattern: p, Cmp: cmp, Order: order, Enum: true, Chunk: ch, Strict: true}, "enum-declared/"+cmp)
							}
							// directly afterwards, in the same process, the sibling column
							exec(likeCase{Pattern: p, Cmp: cmp, Order: order, Enum: true, Chunk: ch, Rot: true}, "enum-rotated/"+cmp)
						}
					}
				}
			}
		}
	}
	// two patterns under Or, in both orders (a member must not unselect what an earlier member selected)
	orPats := []string{"a%", "%b", "%a%", "A", "%", "a.", "aa%", "%\u0131", "K%"}
	for _, p1 := range orPats {
		for _, p2 := range orPats {
			if p1 == p2 {
				continue
			}
			for _, cmp := range []string{"like", "ilike"} {
				if ctx.Mine() {
					exec(likeCase{Pattern: p1, Pattern2: p2, HasP2: true, Cmp: cmp, Order: "asc"}, "or/string")
				}
				if ctx.Mine() {
					exec(likeCase{Pattern: p1, Pattern2: p2, HasP2: true, Cmp: cmp, Order: "asc", Enum: true, Chunk: 0}, "or/enum")
				}
				// ... with the first member negated, on derived frames (sorted: the index is a permutation)
				for _, sub := range []string{"", "sorted-all", "sorted-head", "filtered"} {
					if ctx.Mine() {
						exec(likeCase{Pattern: p1, Pattern2: p2, HasP2: true, NotFirst: true, Cmp: cmp, Order: "asc", Sub: sub}, "or-not/string")
					}
					if ctx.Mine() {
						exec(likeCase{Pattern: p1, Pattern2: p2, HasP2: true, NotFirst: true, Cmp: cmp, Order: "asc", Enum: true, Chunk: 0, Sub: sub}, "or-not/enum")
					}
				}
			}
		}
	}
	// every code point below U+20000 that has a case mapping (also those that are not lower-case LETTERS: circled
	// letters, roman numerals, title-case digraphs, combining marks): as a cell alone, in front of and behind other
	// characters; ilike with the code point, its upper-case form, and both as prefix / suffix patterns
	for r := rune(0x80); r < 0x20000; r++ {
		if unicode.ToUpper(r) == r && unicode.ToLower(r) == r {
			continue
		}
		c := string(r)
		up := strings.ToUpper(c)
		seq := []string{c, "x" + c + "y", c + c, "A" + c}
		for _, p := range []string{c, up, "%" + up, up + "%", "%" + c + "y"} {
			for _, en := range []bool{false, true} {
				if ctx.Mine() {
					exec(likeCase{Pattern: p, Cmp: "ilike", Seq: seq, Enum: en}, "ilike-every-cased-code-point")
				}
			}
		}
		if ctx.Mine() {
			exec(likeCase{Upper: true, Seq: seq, BufLen: 10}, "toupper-every-cased-code-point")
		}
	}
	// an invalid pattern next to a valid one under Or, in both orders: the error must come out wherever it stands
	for _, bad := range []string{"a(b", "%[x%", "(", "%*abc"} {
		for _, good := range []string{"a%", "%b", "A", "%"} {
			for _, cmp := range []string{"like", "ilike"} {
				for _, en := range []bool{false, true} {
					if ctx.Mine() {
						exec(likeCase{Pattern: bad, Pattern2: good, HasP2: true, Cmp: cmp, Order: "asc", Enum: en}, "or/invalid-first")
					}
					if ctx.Mine() {
						exec(likeCase{Pattern: good, Pattern2: bad, HasP2: true, Cmp: cmp, Order: "asc", Enum: en}, "or/invalid-second")
					}
				}
			}
		}
	}
	// thorough: all 4-code-point patterns over a reduced alphabet (string column, one cell order)
	if !ctx.Quick() {
		red := []string{"a", "A", "\u0131", "\u0250", "\u0080", "%", "."}
		forEachSeq(4, len(red), func(pick []int) {
			p := red[pick[0]] + red[pick[1]] + red[pick[2]] + red[pick[3]]
			for _, cmp := range []string{"like", "ilike"} {
				if ctx.Mine() {
					exec(likeCase{Pattern: p, Cmp: cmp, Order: orders[(pick[0]+pick[3])%3]}, "string4/"+cmp)
				}
			}
		})
	}
	// degenerate columns: no cell to look at; the pattern's validity must still be decided
	for _, p := range []string{"a(b", "%[x%", "x)y", "(", "a", "%", "a.*", "", "ab", "AB", "zz"} {
		for _, cmp := range []string{"like", "ilike"} {
			for _, deg := range []string{"zero", "allnull", "or-all", "filtered-null", "plain"} {
				for _, en := range []bool{false, true} {
					if ctx.Mine() {
						exec(likeCase{Pattern: p, Cmp: cmp, Degenerate: deg, Enum: en}, "degenerate")
					}
					if en && ctx.Mine() {
						exec(likeCase{Pattern: p, Cmp: cmp, Degenerate: deg, Enum: en, Strict: true}, "degenerate-declared")
					}
				}
			}
		}
	}
	// buffer reuse: a 20-cell core (incl. runes outside the basic plane) in all sequences of 3, for the case-insensitive matchers and for ToUpper itself
	coreCells := []string{"a", "\u0131", "\u0250", "a\u0131b", "\u0250\u0250\u0250\u0250", "aaaaaaaaa", "aaaaaaaaa\u0131", "aaaaaaaaaaa\u0250", "\u00dfa", "a\u0080", "\u017f\u017f\u017f\u017f\u017f\u017f", "", "A", "bbbbbbbbbbbbbbbbbbbb\u0250",
		"12345678\u0250", "AAAAAAAAAAAAAA\u0250", "abcdefghijkl",
		// runes outside the basic plane next to basic-plane runes with the same low 16 bits
		"\u0448\u0429", "\U00010428\U00010429", "x\U0001044Fy\u044f"}
	corePats := []string{"a%", "%\u0131", "%A%", "aib", "%\u0250", "s%", "%\u0080"}
	forEachSeq(3, len(coreCells), func(pick []int) {
		seq := []string{coreCells[pick[0]], coreCells[pick[1]], coreCells[pick[2]]}
		for _, bl := range []int{0, 4, 10, 16} {
			if ctx.Mine() {
				exec(likeCase{Upper: true, Seq: seq, BufLen: bl}, "toupper-seq")
			}
		}
		for _, p := range corePats {
			if ctx.Mine() {
				exec(likeCase{Pattern: p, Cmp: "ilike", Seq: seq}, "ilike-seq")
			}
		}
	})
	// every cell alone through ToUpper with the matcher's initial buffer size
	if ctx.Mine() {
		for _, cell := range c18Cells() {
			c := likeCase{Upper: true, Seq: []string{cell}, BufLen: 10}
			ctx.Exec(c, func() *core.Failure { return runLikeCase(c) })
		}
		ctx.Outcome("toupper-all-cells")
	}
}

func init() {
	core.Register(&core.Check{
		ID:    "C18",
		Setup: func() { c18Env() },
		Level: "model_checking",
		Rule: "case = (pattern, comparator, column kind, cell order). Cells: ALL strings of length <= 3 over a 13-code-point alphabet (a, A, b, é, É, ß, dotless i U+0131 (upper one byte shorter), long s U+017F, U+0250 (upper one byte longer), C1 control U+0080, Kelvin sign U+212A, '.', '(') plus a^k+c and c+b^k for k = 4..14 (lengths around the matcher's 10-byte buffer), A^k+t and 7^k+t for k = 4..18 and four tails t that change under upper-casing, and one null; " +
			"patterns: ALL strings of length <= 3 over the alphabet plus '%' (incl. empty, %, %%, regex metacharacters, invalid regex) plus long patterns; comparators like and ilike; as string column (cells in ascending, descending and interleaved length order, because the case-insensitive matcher reuses one buffer across cells) and as enum column in chunks of 255 values (the maximal cardinality), each followed in the same process by a sibling enum column with the same cardinality, first and last value but the middle values rotated, and each also on five frames derived from the column's frame (tail slice, middle slice, sorted head, filtered, all rows sorted in reverse: 8-20 rows of a column with 255 values); valid and invalid patterns on degenerate columns (no rows, all null, rows already selected by an earlier Or sub-clause, filtered down to nulls); a 20-cell core (incl. runes outside the basic plane) in all sequences of 3 through ilike and through the zero-alloc ToUpper directly with 4 buffer sizes. " +
			"Oracle: the statement's rules (literal match after trimming one leading/trailing %, strings.ToUpper for ilike, Go regexp anchored per missing % with (?i) for ilike when the pattern has metacharacters, compile error => Err, nulls never match). Every Filter call evaluates ~2700 cells; all cases non-trivial, distinct by content.",
		Assumptions: []string{
			"strings.ToUpper and Go's regexp are the reference for Unicode upper-casing and regular expressions",
			"valid UTF-8 only (the property's quantifier)",
		},
		Bound: map[string]string{
			"quick":    "all patterns of <= 2 code points on three cell orders, 3-code-point patterns on one order each; enum chunks on the ascending order",
			"thorough": "all patterns on all three orders for string and enum columns; all 4-code-point patterns over a 7-symbol alphabet on string columns",
		},
		Run:    c18Run,
		Replay: replayAs(runLikeCase),
	})
}
