package model

import (
	"fmt"
	"math"
	"strconv"
	"strings"

	"github.com/tobgu/qframe"
	"github.com/tobgu/qframe/types"
)

// Instr is the data form of a qframe.Instruction.
//
// Fn: const:int|float|bool|string|nilstring|strptr, copy, fn0:int|float|bool|string,
// fn1:toint|tofloat|tobool|tostr, fn2:op, builtin:<name>, bad:<what> (C10 only)
type Instr struct {
	Fn   string `json:"fn"`
	Dst  string `json:"dst"`
	Src1 string `json:"src1,omitempty"`
	Src2 string `json:"src2,omitempty"`
	Col  string `json:"col,omitempty"` // source of a copy
	I    int    `json:"i,omitempty"`
	FB   uint64 `json:"fb,omitempty"`
	B    bool   `json:"b,omitempty"`
	S    string `json:"s,omitempty"`
}

func (in Instr) String() string {
	switch {
	case strings.HasPrefix(in.Fn, "const:"):
		return fmt.Sprintf("%s := %s(%d,%v,%v,%q)", in.Dst, in.Fn, in.I, math.Float64frombits(in.FB), in.B, in.S)
	case in.Fn == "copy":
		return fmt.Sprintf("%s := copy(%s)", in.Dst, in.Col)
	}
	return fmt.Sprintf("%s := %s(%s,%s)", in.Dst, in.Fn, in.Src1, in.Src2)
}

// ---- user function registry ------------------------------------------------

func fn1Int(name string) interface{} {
	switch name {
	case "toint":
		return func(x int) int { return x + 1 }
	case "tofloat":
		return func(x int) float64 { return float64(x) / 2 }
	case "tobool":
		return func(x int) bool { return x%2 != 0 }
	case "same":
		return func(x int) int { return x }
	case "tostr":
		return func(x int) *string {
			if x == 0 {
				return nil
			}
			s := strconv.Itoa(x)
			return &s
		}
	}
	return nil
}

func fn1Float(name string) interface{} {
	switch name {
	case "toint":
		return func(x float64) int {
			if math.IsNaN(x) {
				return -1
			}
			return int(x)
		}
	case "tofloat":
		return func(x float64) float64 { return -x }
	case "tobool":
		return func(x float64) bool { return math.IsNaN(x) }
	case "same":
		return func(x float64) float64 { return x }
	case "tostr":
		return func(x float64) *string {
			if math.IsNaN(x) {
				return nil
			}
			s := strconv.FormatFloat(x, 'g', -1, 64)
			return &s
		}
	}
	return nil
}

func fn1Bool(name string) interface{} {
	switch name {
	case "toint":
		return func(x bool) int {
			if x {
				return 1
			}
			return 0
		}
	case "tofloat":
		return func(x bool) float64 {
			if x {
				return 0.5
			}
			return -0.5
		}
	case "tobool":
		return func(x bool) bool { return !x }
	case "same":
		return func(x bool) bool { return x }
	case "tostr":
		return func(x bool) *string { s := strconv.FormatBool(x); return &s }
	}
	return nil
}

func fn1Str(name string) interface{} {
	switch name {
	case "toint":
		return func(x *string) int {
			if x == nil {
				return -1
			}
			return len(*x)
		}
	case "tofloat":
		return func(x *string) float64 {
			if x == nil {
				return math.NaN()
			}
			return float64(len(*x)) + 0.25
		}
	case "tobool":
		return func(x *string) bool { return x == nil }
	case "tostr":
		return func(x *string) *string {
			if x == nil {
				return nil
			}
			s := *x + *x
			return &s
		}
	case "same":
		return func(x *string) *string { return x } // hands its argument pointer back
	case "fill":
		// does not map null to null
		return func(x *string) *string {
			r := "N/A"
			if x != nil {
				r = *x + "?"
			}
			return &r
		}
	}
	return nil
}

func Fn1(kind Kind, name string) interface{} {
	if name == "fill" {
		return fn1Str(name) // a string function whatever the column: a type mismatch on other columns
	}
	switch kind {
	case Int:
		return fn1Int(name)
	case Float:
		return fn1Float(name)
	case Bool:
		return fn1Bool(name)
	case String, Enum:
		return fn1Str(name)
	}
	return fn1Int(name)
}

func Fn2(kind Kind, pass bool) interface{} {
	switch kind {
	case Int:
		return func(x, y int) int { return x*10 + y }
	case Float:
		return func(x, y float64) float64 { return x - y }
	case Bool:
		return func(x, y bool) bool { return x && !y }
	default:
		if pass {
			// returns one of its argument pointers unchanged (like function.ConcatS does for a nil operand)
			return func(x, y *string) *string {
				if x == nil {
					return y
				}
				return x
			}
		}
		return func(x, y *string) *string {
			a, b := "<nil>", "<nil>"
			if x != nil {
				a = *x
			}
			if y != nil {
				b = *y
			}
			if x == nil && y == nil {
				return nil
			}
			s := a + "+" + b
			return &s
		}
	}
}

// apply the registry functions on model cells
func applyFn1(kind Kind, name string, c Cell) (Kind, Cell) {
	var res interface{}
	switch kind {
	case Int:
		switch f := fn1Int(name).(type) {
		case func(int) int:
			res = f(c.I)
		case func(int) float64:
			res = f(c.I)
		case func(int) bool:
			res = f(c.I)
		case func(int) *string:
			res = f(c.I)
		}
	case Float:
		switch f := fn1Float(name).(type) {
		case func(float64) int:
			res = f(c.F)
		case func(float64) float64:
			res = f(c.F)
		case func(float64) bool:
			res = f(c.F)
		case func(float64) *string:
			res = f(c.F)
		}
	case Bool:
		switch f := fn1Bool(name).(type) {
		case func(bool) int:
			res = f(c.B)
		case func(bool) float64:
			res = f(c.B)
		case func(bool) bool:
			res = f(c.B)
		case func(bool) *string:
			res = f(c.B)
		}
	default:
		switch f := fn1Str(name).(type) {
		case func(*string) int:
			res = f(sp(c))
		case func(*string) float64:
			res = f(sp(c))
		case func(*string) bool:
			res = f(sp(c))
		case func(*string) *string:
			res = f(sp(c))
		}
	}
	switch v := res.(type) {
	case int:
		return Int, I(v)
	case float64:
		return Float, F(v)
	case bool:
		return Bool, B(v)
	case *string:
		if v == nil {
			return String, Null()
		}
		return String, S(*v)
	}
	panic("applyFn1: bad function " + name)
}

// fn1ResultKindFor: "same" keeps the source kind (enum sources yield string columns).
func fn1ResultKindFor(name string, src Kind) Kind {
	if name == "same" {
		if src == Enum {
			return String
		}
		return src
	}
	return fn1ResultKind(name)
}

func fn1ResultKind(name string) Kind {
	switch name {
	case "toint":
		return Int
	case "tofloat":
		return Float
	case "tobool":
		return Bool
	}
	return String // tostr, same
}

func applyFn2(kind Kind, x, y Cell, pass bool) Cell {
	switch kind {
	case Int:
		return I(Fn2(Int, false).(func(int, int) int)(x.I, y.I))
	case Float:
		return F(Fn2(Float, false).(func(float64, float64) float64)(x.F, y.F))
	case Bool:
		return B(Fn2(Bool, false).(func(bool, bool) bool)(x.B, y.B))
	}
	r := Fn2(String, pass).(func(*string, *string) *string)(sp(x), sp(y))
	if r == nil {
		return Null()
	}
	return S(*r)
}

// ---- real instruction construction ----------------------------------------

// fn0 functions return a constant and count their calls ("each row received
// one call" is what the property asks of a zero-argument function; the order of
// the calls is only fixed for WithRowNums).
func fn0(kind string, calls *int) interface{} {
	switch kind {
	case "int":
		return func() int { *calls++; return 5 }
	case "float":
		return func() float64 { *calls++; return 2.5 }
	case "bool":
		return func() bool { *calls++; return true }
	default:
		return func() *string { *calls++; s := "r"; return &s }
	}
}

// BuildInstrs builds the real instructions. The Go type of fn1/fn2 functions
// depends on the kind of the source column at that point of the program, so
// the model is run alongside to know the intermediate kinds.
func BuildInstrs(ins []Instr, f Frame) ([]qframe.Instruction, []int) {
	out := make([]qframe.Instruction, len(ins))
	calls := make([]int, len(ins))
	cur := f
	for i, in := range ins {
		out[i] = buildInstr(in, cur, &calls[i])
		if !cur.Err {
			cur = ApplyOne(cur, in, nil, Defects{})
		}
	}
	return out, calls
}

func buildInstr(in Instr, cur Frame, calls *int) qframe.Instruction {
	r := qframe.Instruction{DstCol: in.Dst, SrcCol1: in.Src1, SrcCol2: in.Src2}
	kind := Int
	if c, _, ok := cur.Col(in.Src1); ok {
		kind = c.Kind
	}
	p := strings.SplitN(in.Fn, ":", 2)
	arg := ""
	if len(p) == 2 {
		arg = p[1]
	}
	switch p[0] {
	case "const":
		switch arg {
		case "int":
			r.Fn = in.I
		case "float":
			r.Fn = math.Float64frombits(in.FB)
		case "bool":
			r.Fn = in.B
		case "string":
			r.Fn = in.S
		case "nilstring":
			r.Fn = (*string)(nil)
		case "strptr":
			s := in.S
			r.Fn = &s
		}
	case "copy":
		r.Fn = types.ColumnName(in.Col)
	case "fn0":
		r.Fn = fn0(arg, calls)
	case "fn1":
		r.Fn = Fn1(kind, arg)
	case "fn2":
		r.Fn = Fn2(kind, arg == "pass")
	case "builtin":
		r.Fn = arg
	case "bad":
		switch arg {
		case "int":
			r.Fn = 42
		case "nilfn":
			r.Fn = nil
		case "wrongsig":
			r.Fn = func(a, b, c int) int { return a }
		case "struct":
			r.Fn = struct{}{}
		}
	}
	return r
}

// ---- reference semantics ---------------------------------------------------

func checkName(name string) bool {
	if len(name) == 0 {
		return false
	}
	if len(name) > 2 && ((strings.HasPrefix(name, "'") && strings.HasSuffix(name, "'")) || (strings.HasPrefix(name, `"`) && strings.HasSuffix(name, `"`))) {
		return false
	}
	return !strings.HasPrefix(name, "$")
}

func zeroCell(k Kind) Cell {
	switch k {
	case Float:
		return F(0)
	case String, Enum:
		return Null()
	}
	return Cell{}
}

func errFrame(format string, a ...interface{}) Frame {
	return Frame{Err: true, ErrText: fmt.Sprintf(format, a...), N: -1}
}

// setCol replaces in place or appends.
func setCol(f Frame, c Col) Frame {
	g := Frame{N: f.N, Cols: append([]Col(nil), f.Cols...)}
	if _, i, ok := f.Col(c.Name); ok {
		g.Cols[i] = c
	} else {
		g.Cols = append(g.Cols, c)
	}
	return g
}

// ApplyOne applies one instruction. rows == nil means all rows; otherwise only
// the listed rows are computed and the others get the zero/null value.
func ApplyOne(f Frame, in Instr, rows []int, d Defects) Frame {
	if f.Err {
		return f
	}
	all := rows == nil
	sel := make([]bool, f.N)
	if all {
		for i := range sel {
			sel[i] = true
		}
	} else {
		for _, r := range rows {
			sel[r] = true
		}
	}
	order := rows
	if all {
		order = make([]int, f.N)
		for i := range order {
			order[i] = i
		}
	}
	p := strings.SplitN(in.Fn, ":", 2)
	arg := ""
	if len(p) == 2 {
		arg = p[1]
	}
	mk := func(kind Kind, val func(r int) Cell) Frame {
		if !checkName(in.Dst) {
			return errFrame("illegal destination name %q", in.Dst)
		}
		c := Col{Name: in.Dst, Kind: kind, Cells: make([]Cell, f.N)}
		for r := 0; r < f.N; r++ {
			c.Cells[r] = zeroCell(kind)
		}
		for _, r := range order {
			c.Cells[r] = val(r)
		}
		return setCol(f, c)
	}
	switch p[0] {
	case "const":
		if in.Src1 != "" {
			// a constant with a source column is a one-argument apply with a non-function
			return errFrame("constant used as function")
		}
		if !all && d.FilteredApplyConstAllRows {
			order = make([]int, f.N)
			for i := range order {
				order[i] = i
			}
		}
		switch arg {
		case "int":
			return mk(Int, func(int) Cell { return I(in.I) })
		case "float":
			return mk(Float, func(int) Cell { return F(math.Float64frombits(in.FB)) })
		case "bool":
			return mk(Bool, func(int) Cell { return B(in.B) })
		case "string", "strptr":
			return mk(String, func(int) Cell { return S(in.S) })
		case "nilstring":
			return mk(String, func(int) Cell { return Null() })
		}
	case "copy":
		if in.Src1 != "" {
			return errFrame("column name used as function")
		}
		src, _, ok := f.Col(in.Col)
		if !ok {
			return errFrame("unknown column %q", in.Col)
		}
		if in.Dst == in.Col {
			return f
		}
		if !checkName(in.Dst) {
			return errFrame("illegal destination name %q", in.Dst)
		}
		if !all && d.FilteredApplyCopyAllRows {
			all = true
		}
		c := Col{Name: in.Dst, Kind: src.Kind, EnumVals: src.EnumVals, Cells: make([]Cell, f.N)}
		for r := 0; r < f.N; r++ {
			if all || sel[r] {
				c.Cells[r] = src.Cells[r]
			} else {
				c.Cells[r] = zeroCell(src.Kind)
			}
		}
		return setCol(f, c)
	case "fn0":
		if in.Src1 != "" {
			return errFrame("zero argument function with a source column")
		}
		switch arg {
		case "int":
			return mk(Int, func(int) Cell { return I(5) })
		case "float":
			return mk(Float, func(int) Cell { return F(2.5) })
		case "bool":
			return mk(Bool, func(int) Cell { return B(true) })
		default:
			return mk(String, func(int) Cell { return S("r") })
		}
	case "fn1":
		src, _, ok := f.Col(in.Src1)
		if !ok {
			return errFrame("unknown column %q", in.Src1)
		}
		if src.Kind == Undef {
			return errFrame("undefined column kind")
		}
		if arg == "fill" && src.Kind != String && src.Kind != Enum {
			return errFrame("string function on a %s column", src.Kind)
		}
		return mk(fn1ResultKindFor(arg, src.Kind), func(r int) Cell { _, c := applyFn1(src.Kind, arg, src.Cells[r]); return c })
	case "fn2":
		s1, _, ok1 := f.Col(in.Src1)
		s2, _, ok2 := f.Col(in.Src2)
		if !ok1 || !ok2 {
			return errFrame("unknown column")
		}
		if s1.Kind != s2.Kind {
			return errFrame("column kinds differ")
		}
		kind := s1.Kind
		if kind == Enum {
			kind = String
		}
		return mk(kind, func(r int) Cell { return applyFn2(s1.Kind, s1.Cells[r], s2.Cells[r], arg == "pass") })
	case "builtin":
		if in.Src1 == "" {
			// a bare string without source column is a string constant
			return mk(String, func(int) Cell { return S(arg) })
		}
		src, _, ok := f.Col(in.Src1)
		if !ok {
			return errFrame("unknown column %q", in.Src1)
		}
		if in.Src2 != "" {
			return errFrame("no two-argument built-ins")
		}
		if arg != "ToUpper" || (src.Kind != String && src.Kind != Enum) {
			return errFrame("unknown built-in %q for %s", arg, src.Kind)
		}
		if src.Kind == Enum {
			if !all && d.FilteredApplyEnumUpperAllRows {
				order = make([]int, f.N)
				for i := range order {
					order[i] = i
				}
			}
			return mk(Enum, func(r int) Cell {
				if src.Cells[r].Null {
					return Null()
				}
				return S(strings.ToUpper(src.Cells[r].S))
			})
		}
		return mk(String, func(r int) Cell {
			if src.Cells[r].Null {
				return Null()
			}
			return S(strings.ToUpper(src.Cells[r].S))
		})
	case "bad":
		return errFrame("invalid function value")
	}
	return errFrame("unknown instruction %q", in.Fn)
}

// Apply runs the instructions in order.
func Apply(f Frame, ins []Instr) Frame {
	for _, in := range ins {
		f = ApplyOne(f, in, nil, Defects{})
	}
	return f
}

// FilteredApply: instructions computed for the rows matching the clause only.
func FilteredApply(f Frame, c Clause, ins []Instr, d Defects) Frame {
	if f.Err {
		return f
	}
	rows, err := Evaluator{F: f}.Filter(c)
	if err != nil {
		return errFrame("filter: %v", err)
	}
	if rows == nil {
		rows = []int{}
	}
	for _, in := range ins {
		f = ApplyOne(f, in, rows, d)
	}
	return f
}
