//go:build verif

package verifseam

const CoreAvailable = false

type CompareResult byte

const (
	LessThan CompareResult = iota
	GreaterThan
	Equal
	NotEqual
)

type Comparable interface {
	Compare(i, j uint32) CompareResult
	Hash(i uint32, seed uint64) uint64
}
