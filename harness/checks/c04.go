package checks

import (
	"encoding/json"
	"fmt"
	"math"
	"sort"
	"strings"

	"github.com/tobgu/qframe"
	"github.com/tobgu/qframe/aggregation"
	"github.com/tobgu/qframe/config/groupby"

	"verif/harness/core"
	"verif/harness/model"
)

// C04 — GroupBy partitions the rows by key; Aggregate summarises exactly each group.
// C05 — Distinct keeps exactly one whole row per distinct key.
// Layer 2: public API with the real per-type Hash/Compare.

type groupCase struct {
	Op        string      `json:"op"` // groupby | distinct
	Frame     model.Frame `json:"frame"`
	Shape     int         `json:"shape"`
	By        []string    `json:"by"`
	GroupNull bool        `json:"group_null"`
	// ByDefault: call Distinct()/GroupBy() without a Columns option.
	ByDefault bool `json:"by_default,omitempty"`
	// Perm, when set, lays logical row r at physical position Perm[r] (instead of Shape)
	Perm []int `json:"perm,omitempty"`
	// UpperKey: the (enum) key column k1 is replaced by its built-in ToUpper before grouping: values that
	// differ only in case become one key
	UpperKey bool `json:"upper_key,omitempty"`
	// Chain: the call under test runs on the RESULT of an earlier Distinct over the same columns
	// (1: opposite Null setting, 2: same setting, 3: opposite setting, then sorted by the first key,
	// 4: opposite setting over the first key column only, then filtered with a clause that keeps every row)
	Chain int `json:"chain,omitempty"`
	// Battery: 1 = the returned frame (aggregate / distinct result) also goes through the latent-state battery
	// (battery.go); 2 = the INPUT frame and frames derived from it go through it (deep); 3 = deep, on the battery frame
	Battery int `json:"battery,omitempty"`
}

func c04KeyAlphabet(k model.Kind) []model.Cell {
	switch k {
	case model.Int:
		return []model.Cell{model.I(0), model.I(1), model.I(-1)}
	case model.Float:
		// two NaN payloads: math.NaN() and the one amd64 produces for 0/0
		return []model.Cell{model.F(0), model.F(math.Copysign(0, -1)), model.F(1), model.NaN(), model.F(math.Float64frombits(0xFFF8000000000000)), model.F(math.Inf(1)), model.F(math.Inf(-1))}
	case model.Bool:
		return []model.Cell{model.B(false), model.B(true)}
	case model.String:
		return []model.Cell{model.Null(), model.S(""), model.S("a"), model.S("\x00")}
	case model.Enum:
		return []model.Cell{model.Null(), model.S("a"), model.S("b")}
	}
	return nil
}

var c04ValCols = func() []model.Col {
	nan := math.NaN()
	return []model.Col{
		{Name: "vi", Kind: model.Int, Cells: []model.Cell{model.I(math.MaxInt64), model.I(-1), model.I(math.MinInt64), model.I(5), model.I(1), model.I(8)}},
		{Name: "vf", Kind: model.Float, Cells: []model.Cell{model.F(1e16), model.F(1), model.F(-1e16), model.F(0.5), model.F(3), model.F(-7)}},
		{Name: "vn", Kind: model.Float, Cells: []model.Cell{model.F(nan), model.F(2), model.F(nan), model.F(1), model.F(4), model.F(0.25)}},
		{Name: "vb", Kind: model.Bool, Cells: []model.Cell{model.B(true), model.B(false), model.B(true), model.B(true), model.B(false), model.B(false)}},
		{Name: "vs", Kind: model.String, Cells: []model.Cell{model.S("p"), model.Null(), model.S(""), model.S("q"), model.S("r"), model.S("t")}},
		{Name: "ve", Kind: model.Enum, EnumVals: []string{"hi", "lo"}, Cells: []model.Cell{model.S("lo"), model.S("hi"), model.Null(), model.S("lo"), model.S("hi"), model.Null()}},
	}
}()

// keyEq: equality of two cells as grouping keys.
func keyEq(k model.Kind, a, b model.Cell, groupNull bool) bool {
	an, bn := isNullCell(k, a), isNullCell(k, b)
	if an || bn {
		return an && bn && groupNull
	}
	if k == model.Float {
		return a.F == b.F // 0 == -0
	}
	return model.CellEq(k, a, b)
}

func partitionRows(f model.Frame, by []string, groupNull bool) [][]int {
	var cols []model.Col
	for _, name := range by {
		c, _, _ := f.Col(name)
		cols = append(cols, c)
	}
	var groups [][]int
	for r := 0; r < f.N; r++ {
		placed := false
		for gi, g := range groups {
			eq := true
			for _, c := range cols {
				if !keyEq(c.Kind, c.Cells[g[0]], c.Cells[r], groupNull) {
					eq = false
					break
				}
			}
			if eq {
				groups[gi] = append(groups[gi], r)
				placed = true
				break
			}
		}
		if !placed {
			groups = append(groups, []int{r})
		}
	}
	return groups
}

func keyCellString(k model.Kind, c model.Cell) string {
	if k == model.Float && c.F == 0 {
		return "f0"
	}
	return model.CellString(k, c)
}

type recorder struct {
	ints   [][]int
	floats [][]float64
	bools  [][]bool
	strs   [][]string
}

func strPtrs(in []*string) []string {
	out := make([]string, len(in))
	for i, p := range in {
		if p == nil {
			out[i] = "<nil>"
		} else {
			out[i] = "=" + *p
		}
	}
	return out
}

func joinStrs(in []*string) *string {
	r := strings.Join(strPtrs(in), ",")
	return &r
}

func fold(col model.Col, rows []int, fn string) model.Cell {
	switch fn {
	case "sum":
		if col.Kind == model.Int {
			s := 0
			for _, r := range rows {
				s += col.Cells[r].I
			}
			return model.I(s)
		}
		s := 0.0
		for _, r := range rows {
			s += col.Cells[r].F
		}
		return model.F(s)
	case "avg":
		s := 0.0
		for _, r := range rows {
			s += col.Cells[r].F
		}
		return model.F(s / float64(len(rows)))
	case "max", "min":
		if col.Kind == model.Int {
			m := col.Cells[rows[0]].I
			for _, r := range rows[1:] {
				v := col.Cells[r].I
				if (fn == "max" && v > m) || (fn == "min" && v < m) {
					m = v
				}
			}
			return model.I(m)
		}
		m := col.Cells[rows[0]].F
		for _, r := range rows[1:] {
			if fn == "max" {
				m = math.Max(m, col.Cells[r].F)
			} else {
				m = math.Min(m, col.Cells[r].F)
			}
		}
		return model.F(m)
	case "majority":
		t, f := 0, 0
		for _, r := range rows {
			if col.Cells[r].B {
				t++
			} else {
				f++
			}
		}
		return model.B(t > f)
	case "join":
		var ps []string
		for _, r := range rows {
			if col.Cells[r].Null {
				ps = append(ps, "<nil>")
			} else {
				ps = append(ps, "="+col.Cells[r].S)
			}
		}
		return model.S(strings.Join(ps, ","))
	case "strjoin":
		var ps []string
		for _, r := range rows {
			if !col.Cells[r].Null {
				ps = append(ps, col.Cells[r].S)
			}
		}
		return model.S(strings.Join(ps, "|"))
	}
	panic("fold " + fn)
}

type aggSpec struct {
	fn, col, as string
	kind        model.Kind // result kind
}

var c04Aggs = []aggSpec{
	{"count", "vs", "cnt", model.Int},
	{"sum", "vi", "si", model.Int},
	{"max", "vi", "xi", model.Int},
	{"min", "vi", "", model.Int}, // no As: keeps the source name "vi"
	{"sum", "vf", "sf", model.Float},
	{"avg", "vf", "af", model.Float},
	{"max", "vf", "xf", model.Float},
	{"min", "vf", "nf", model.Float},
	{"sum", "vn", "sn", model.Float},
	{"max", "vn", "xn", model.Float}, // with NaN cells at varying positions of the group
	{"min", "vn", "nn", model.Float},
	{"majority", "vb", "mb", model.Bool},
	{"join", "vs", "js", model.String},
	{"join", "ve", "je", model.String},
	// the library's own example aggregation: the non-null strings joined by the separator
	{"strjoin", "vs", "ls", model.String},
	{"strjoin", "ve", "le", model.String},
	{"rec", "vi", "ri", model.Int},
	{"rec", "vf", "rf", model.Float},
	{"rec", "vb", "rb", model.Bool},
}

func sortedRowStrings(f model.Frame, keyCols int) []string {
	rows := make([]string, f.N)
	for r := 0; r < f.N; r++ {
		var sb strings.Builder
		for ci, c := range f.Cols {
			if ci < keyCols {
				sb.WriteString(keyCellString(c.Kind, c.Cells[r]))
			} else {
				sb.WriteString(model.CellString(c.Kind, c.Cells[r]))
			}
			sb.WriteByte('|')
		}
		rows[r] = sb.String()
	}
	sort.Strings(rows)
	return rows
}

func groupbyFns(c groupCase) []groupby.ConfigFunc {
	return groupbyFnsWith(c, c.GroupNull)
}

// groupbyFnsWith: the options in either order (cases on odd-numbered index shapes give Null first: the order
// of options must not matter); an explicit Null(false) on shapes 2 and 3.
func groupbyFnsWith(c groupCase, groupNull bool) []groupby.ConfigFunc {
	var fns []groupby.ConfigFunc
	nullFirst := c.Shape%2 == 1
	if nullFirst && (groupNull || c.Shape == 3) {
		fns = append(fns, groupby.Null(groupNull))
	}
	if !c.ByDefault {
		fns = append(fns, groupby.Columns(c.By...))
	}
	if !nullFirst && (groupNull || c.Shape == 2) {
		fns = append(fns, groupby.Null(groupNull))
	}
	return fns
}

func runGroupCase(c groupCase) *core.Failure {
	if c.Battery == 3 {
		bf, decl := batteryFrame()
		q := model.BuildShape(bf, c.Shape)
		// the operation of the property once on the frame, then the battery on the frame and on frames derived from it
		if c.Op == "distinct" {
			_ = q.Distinct(groupby.Columns("e", "s"))
		} else {
			_ = q.GroupBy(groupby.Columns("e", "s")).Aggregate(qframe.Aggregation{Fn: "count", Column: "n"})
		}
		return latentDeep(q, decl, "the battery frame ("+model.ShapeNames[c.Shape]+")")
	}
	c.Frame.Fix()
	qf := model.BuildShape(c.Frame, c.Shape)
	if c.Perm != nil {
		qf = model.BuildPermuted(c.Frame, c.Perm)
	}
	in := model.ObserveAs(qf, c.Frame)
	if in.Err {
		return core.Failf("could not build input: %s", in.ErrText)
	}
	in.AdoptMeta(c.Frame)
	if c.UpperKey {
		qf = qf.Apply(qframe.Instruction{Fn: "ToUpper", DstCol: "k1", SrcCol1: "k1"})
		in = model.Observe(qf)
		if in.Err {
			return core.Failf("ToUpper on the key column failed: %s", in.ErrText)
		}
	}
	if c.Chain > 0 {
		first := groupbyFnsWith(c, c.GroupNull != (c.Chain != 2))
		if c.Chain == 4 && len(c.By) > 0 {
			first = []groupby.ConfigFunc{groupby.Columns(c.By[0]), groupby.Null(!c.GroupNull)}
		}
		qf = qf.Distinct(first...)
		if c.Chain == 3 && len(c.By) > 0 {
			qf = qf.Sort(qframe.Order{Column: c.By[0]})
		}
		if c.Chain == 4 {
			qf = qf.Filter(qframe.Or(qframe.Filter{Column: "vb", Comparator: "=", Arg: true}, qframe.Filter{Column: "vb", Comparator: "=", Arg: false}))
		}
		in = model.Observe(qf)
		if in.Err {
			return core.Failf("the earlier Distinct failed: %s", in.ErrText)
		}
		in.AdoptMeta(c.Frame)
	}
	if c.Battery == 2 {
		return latentDeep(qf, declOf(in), fmt.Sprintf("the input frame (shape %s) %s", model.ShapeNames[c.Shape], in))
	}
	before := in.String()
	by := c.By
	if len(by) == 0 && c.Op == "distinct" {
		by = in.Names() // Distinct without columns means all columns
	}
	groups := partitionRows(in, by, c.GroupNull)
	// a short history: an earlier GroupBy/Distinct in the same process with the opposite Null
	// setting and other columns (configuration must not leak from one call to the next)
	primer := qframe.New(map[string]interface{}{"p": []float64{math.NaN(), math.NaN(), 1}, "q": []int{1, 1, 1}})
	primer.GroupBy(groupby.Columns("p"), groupby.Null(!c.GroupNull))
	primer.Distinct(groupby.Columns("q", "p"), groupby.Null(!c.GroupNull))
	if c.Shape%2 == 1 {
		// ... and on THIS frame, the same grouping with the opposite Null setting first (whatever a column
		// or frame remembers from one call must not leak into the next)
		qf.Distinct(groupbyFnsWith(c, !c.GroupNull)...)
		qf.GroupBy(groupbyFnsWith(c, !c.GroupNull)...)
	}
	var fail *core.Failure
	if c.Op == "distinct" {
		fail = checkDistinct(c, qf, in, by, groups)
	} else {
		fail = checkGroupBy(c, qf, in, by, groups)
	}
	if fail != nil {
		return fail
	}
	if after := model.Observe(qf).String(); after != before {
		return core.Failf("%s changed its receiver", c.Op)
	}
	return nil
}

func checkDistinct(c groupCase, qf qframe.QFrame, in model.Frame, by []string, groups [][]int) *core.Failure {
	distRes := qf.Distinct(groupbyFns(c)...)
	out := model.Observe(distRes)
	if c.Battery == 1 && !out.Err {
		w := fmt.Sprintf("the frame returned by Distinct(by=%v null=%v) shape %s", c.By, c.GroupNull, model.ShapeNames[c.Shape])
		if f := latentBattery(distRes, declOf(in), w); f != nil {
			return f
		}
		if f := bookkeepingBattery(distRes, w); f != nil {
			return f
		}
	}
	desc := fmt.Sprintf("Distinct(by=%v default=%v null=%v) shape %s\n input: %s\n   got: %s", c.By, c.ByDefault, c.GroupNull, model.ShapeNames[c.Shape], in, out)
	if out.Err {
		return core.Failf("Distinct set Err: %s", out.ErrText)
	}
	if len(out.Cols) != len(in.Cols) {
		return core.Failf("Distinct changed the columns: %s", desc)
	}
	for i := range in.Cols {
		if in.Cols[i].Name != out.Cols[i].Name || in.Cols[i].Kind != out.Cols[i].Kind {
			return core.Failf("Distinct changed column %d: %s", i, desc)
		}
	}
	if out.N != len(groups) {
		return core.Failf("Distinct returned %d rows, want %d distinct keys: %s", out.N, len(groups), desc)
	}
	// every returned row is an unmodified input row, and each key class is hit exactly once
	used := make([]bool, len(groups))
	for r := 0; r < out.N; r++ {
		want := rowKey(out, r)
		found := -1
		for gi, g := range groups {
			if used[gi] {
				continue
			}
			for _, m := range g {
				if rowKey(in, m) == want {
					found = gi
					break
				}
			}
			if found >= 0 {
				break
			}
		}
		if found < 0 {
			return core.Failf("Distinct row %d is not an input row of a key class not yet represented: %s", r, desc)
		}
		used[found] = true
	}
	return nil
}

func checkGroupBy(c groupCase, qf qframe.QFrame, in model.Frame, by []string, groups [][]int) *core.Failure {
	g := qf.GroupBy(groupbyFns(c)...)
	if g.Err != nil {
		return core.Failf("GroupBy set Err: %v", g.Err)
	}
	desc := fmt.Sprintf("GroupBy(by=%v null=%v) shape %s\n input: %s", c.By, c.GroupNull, model.ShapeNames[c.Shape], in)
	emptyAmbiguous := in.N == 0 // zero rows: zero groups (also with no key columns)
	if emptyAmbiguous {
		groups = nil
	}
	// QFrames: exactly the groups' rows
	frames, err := g.QFrames()
	if err != nil {
		return core.Failf("QFrames error: %v", err)
	}
	if len(frames) != len(groups) {
		return core.Failf("QFrames returned %d frames, want %d groups: %s", len(frames), len(groups), desc)
	}
	var gotF, wantF []string
	for _, f := range frames {
		o := model.Observe(f)
		gotF = append(gotF, o.String())
	}
	for _, grp := range groups {
		wantF = append(wantF, in.Rows(grp).String())
	}
	sort.Strings(gotF)
	sort.Strings(wantF)
	for i := range gotF {
		if gotF[i] != wantF[i] {
			return core.Failf("QFrames group mismatch: %s\n got: %v\nwant: %v", desc, gotF, wantF)
		}
	}
	// Aggregate
	rec := &recorder{}
	var aggs []qframe.Aggregation
	for _, a := range c04Aggs {
		var fn interface{} = a.fn
		switch a.fn {
		case "join":
			fn = joinStrs
		case "strjoin":
			fn = aggregation.StrJoin("|")
		case "rec":
			switch a.kind {
			case model.Int:
				fn = func(v []int) int { rec.ints = append(rec.ints, append([]int(nil), v...)); return len(v) }
			case model.Float:
				fn = func(v []float64) float64 {
					rec.floats = append(rec.floats, append([]float64(nil), v...))
					return float64(len(v))
				}
			case model.Bool:
				fn = func(v []bool) bool { rec.bools = append(rec.bools, append([]bool(nil), v...)); return len(v)%2 == 1 }
			}
		}
		aggs = append(aggs, qframe.Aggregation{Fn: fn, Column: a.col, As: a.as})
	}
	aggRes := g.Aggregate(aggs...)
	out := model.Observe(aggRes)
	if out.Err {
		return core.Failf("Aggregate set Err: %s: %s", out.ErrText, desc)
	}
	if c.Battery == 1 {
		if f := latentBattery(aggRes, declOf(in), "the frame returned by Aggregate after "+desc); f != nil {
			return f
		}
		if f := bookkeepingBattery(aggRes, "the frame returned by Aggregate after "+desc); f != nil {
			return f
		}
	}
	// expected frame
	want := model.Frame{N: len(groups)}
	for _, name := range by {
		col, _, _ := in.Col(name)
		wc := model.Col{Name: name, Kind: col.Kind}
		for _, grp := range groups {
			wc.Cells = append(wc.Cells, col.Cells[grp[0]])
		}
		want.Cols = append(want.Cols, wc)
	}
	var wantI, wantFl, wantB []string
	for _, a := range c04Aggs {
		col, _, _ := in.Col(a.col)
		name := a.as
		if name == "" {
			name = a.col
		}
		wc := model.Col{Name: name, Kind: a.kind}
		for _, grp := range groups {
			switch a.fn {
			case "count":
				wc.Cells = append(wc.Cells, model.I(len(grp)))
			case "rec":
				var vals []string
				for _, r := range grp {
					vals = append(vals, model.CellString(col.Kind, col.Cells[r]))
				}
				s := strings.Join(vals, ",")
				switch a.kind {
				case model.Int:
					wantI = append(wantI, s)
					wc.Cells = append(wc.Cells, model.I(len(grp)))
				case model.Float:
					wantFl = append(wantFl, s)
					wc.Cells = append(wc.Cells, model.F(float64(len(grp))))
				case model.Bool:
					wantB = append(wantB, s)
					wc.Cells = append(wc.Cells, model.B(len(grp)%2 == 1))
				}
			default:
				wc.Cells = append(wc.Cells, fold(col, grp, a.fn))
			}
		}
		want.Cols = append(want.Cols, wc)
	}
	if len(out.Cols) != len(want.Cols) || out.N != want.N {
		return core.Failf("Aggregate result has %d columns x %d rows, want %d x %d: %s\n got: %s", len(out.Cols), out.N, len(want.Cols), want.N, desc, out)
	}
	for i := range want.Cols {
		if want.Cols[i].Name != out.Cols[i].Name || want.Cols[i].Kind != out.Cols[i].Kind {
			return core.Failf("Aggregate column %d is %s:%s, want %s:%s: %s", i, out.Cols[i].Name, out.Cols[i].Kind, want.Cols[i].Name, want.Cols[i].Kind, desc)
		}
	}
	gr, wr := sortedRowStrings(out, len(by)), sortedRowStrings(want, len(by))
	for i := range gr {
		if gr[i] != wr[i] {
			return core.Failf("Aggregate rows differ: %s\n got: %v\nwant: %v", desc, gr, wr)
		}
	}
	// user functions: called exactly once per group with exactly the group's values in frame order
	cmpCalls := func(kind string, got, want []string) *core.Failure {
		sort.Strings(got)
		sort.Strings(want)
		if fmt.Sprint(got) != fmt.Sprint(want) {
			return core.Failf("user %s aggregation was called with %v, want one call per group with %v: %s", kind, got, want, desc)
		}
		return nil
	}
	var gi, gf, gb []string
	for _, v := range rec.ints {
		var s []string
		for _, x := range v {
			s = append(s, model.CellString(model.Int, model.I(x)))
		}
		gi = append(gi, strings.Join(s, ","))
	}
	for _, v := range rec.floats {
		var s []string
		for _, x := range v {
			s = append(s, model.CellString(model.Float, model.F(x)))
		}
		gf = append(gf, strings.Join(s, ","))
	}
	for _, v := range rec.bools {
		var s []string
		for _, x := range v {
			s = append(s, model.CellString(model.Bool, model.B(x)))
		}
		gb = append(gb, strings.Join(s, ","))
	}
	if f := cmpCalls("int", gi, wantI); f != nil {
		return f
	}
	if f := cmpCalls("float", gf, wantFl); f != nil {
		return f
	}
	if f := cmpCalls("bool", gb, wantB); f != nil {
		return f
	}
	return nil
}

func groupLayerRun(ctx *core.Ctx, op string) {
	maxN := 3
	if !ctx.Quick() {
		maxN = 4
	}
	kinds := []model.Kind{model.Int, model.Float, model.Bool, model.String, model.Enum}
	bys := [][]string{{}, {"k1"}, {"k2"}, {"k1", "k2"}, {"k2", "k1"}}
	if op == "distinct" {
		// a key column named more than once (the repetition must not change the key)
		bys = append(bys, []string{"k1", "k1", "k2"}, []string{"k2", "k2", "k1", "k1"}, []string{"k1", "k2", "k1"})
	}
	for _, k1 := range kinds {
		for _, k2 := range kinds {
			a1, a2 := c04KeyAlphabet(k1), c04KeyAlphabet(k2)
			for n := 0; n <= maxN; n++ {
				forEachSeq(n, len(a1)*len(a2), func(seq []int) {
					for bi, by := range bys {
						for _, gn := range []bool{false, true} {
							// ByDefault only differs for Distinct (all columns) and for by = {}
							variants := []bool{false}
							if bi == 0 {
								variants = []bool{false, true}
							}
							for _, def := range variants {
								if !ctx.Mine() {
									continue
								}
								c1 := model.Col{Name: "k1", Kind: k1, Cells: make([]model.Cell, n)}
								c2 := model.Col{Name: "k2", Kind: k2, Cells: make([]model.Cell, n)}
								if k1 == model.Enum {
									c1.EnumVals = []string{"b", "a"}
								}
								if k2 == model.Enum {
									c2.EnumVals = []string{"b", "a"}
								}
								for i, v := range seq {
									c1.Cells[i] = a1[v/len(a2)]
									c2.Cells[i] = a2[v%len(a2)]
								}
								f := model.Frame{N: n, Cols: []model.Col{c1, c2}}
								for _, vc := range c04ValCols {
									vc.Cells = vc.Cells[:n]
									if op == "distinct" && vc.Name != "vb" {
										continue // keep whole-row duplicates possible
									}
									f.Cols = append(f.Cols, vc)
								}
								shape := int(ctx.Index() % int64(model.NShapes))
								c := groupCase{Op: op, Frame: f, Shape: shape, By: by, GroupNull: gn, ByDefault: def}
								if n == 2 && (bi == 1 || bi == 3) && !def && (op == "distinct" || (k2 == model.Int && !gn && bi == 1)) {
									c.Battery = 1 // (aggregate results have some twenty columns: a thinner selection for GroupBy)
								}
								ctx.Exec(c, func() *core.Failure { return runGroupCase(c) })
								g := partitionRows(f, by, gn)
								if len(g) > 1 && len(g) < n {
									ctx.Nontrivial(fmt.Sprintf("%s|%v|%v|%v", f.String(), by, gn, def))
									ctx.Outcome("api/mixed-groups")
								} else if len(g) <= 1 {
									ctx.Outcome("api/one-group")
								} else {
									ctx.Outcome("api/all-singletons")
								}
								if ctx.WantSample() && ctx.Index()%5003 == 17 {
									ctx.Sample(map[string]interface{}{"op": op, "frame": f.String(), "by": by, "group_null": gn, "shape": model.ShapeNames[shape]})
								}
							}
						}
					}
				})
			}
		}
	}
}

// permLayerRun: one int key column over every key pattern, every physical arrangement of the rows
// (all permutations), so that a group's rows sit at arbitrary physical positions in arbitrary order.
func permLayerRun(ctx *core.Ctx, op string) {
	maxN := 5
	if !ctx.Quick() {
		maxN = 6
	}
	for n := 3; n <= maxN; n++ {
		forEachKeyPattern(n, func(keys []int, distinct int) {
			for _, k := range keys {
				if k < 0 {
					return // int keys: no nulls
				}
			}
			kc := model.Col{Name: "k1", Kind: model.Int, Cells: make([]model.Cell, n)}
			for i, k := range keys {
				kc.Cells[i] = model.I(k)
			}
			f := model.Frame{N: n, Cols: []model.Col{kc}}
			for _, vc := range c04ValCols {
				vc.Cells = vc.Cells[:n]
				if op == "distinct" && vc.Name != "vb" && vc.Name != "vi" {
					continue
				}
				f.Cols = append(f.Cols, vc)
			}
			forEachPerm(n, func(p []int) {
				if !ctx.Mine() {
					return
				}
				c := groupCase{Op: op, Frame: f, By: []string{"k1"}, Perm: cloneInts(p)}
				ctx.Exec(c, func() *core.Failure { return runGroupCase(c) })
				ctx.Outcome("api/permuted-layout")
				if distinct > 1 && distinct < n {
					ctx.Nontrivial(fmt.Sprintf("perm|%v|%v", keys, p))
				}
			})
		})
	}
}

// keyLengthLayerRun: string keys of every length around the word sizes a byte hash may special-case
// (1..9, 15..17, 23..25, 31..33, 63..65), the same key stored at every byte alignment (a pad cell of
// 0..8 bytes in front shifts the column's byte blob), next to keys that differ from it in the
// first or in the last byte only.
func keyLengthLayerRun(ctx *core.Ctx, op string) {
	base := strings.Repeat("abcdefghijklmnopqrstuvwxyz0123456789", 2)
	for _, l := range []int{1, 2, 3, 4, 5, 6, 7, 8, 9, 15, 16, 17, 23, 24, 25, 31, 32, 33, 63, 64, 65} {
		k := base[:l]
		kLast := k[:l-1] + "#"
		kFirst := "#" + k[1:]
		for pad := 0; pad <= 8; pad++ {
			for _, kind := range []model.Kind{model.String, model.Enum} {
				for _, gn := range []bool{false, true} {
					if !ctx.Mine() {
						continue
					}
					padCell := model.Null()
					if pad > 0 {
						padCell = model.S(strings.Repeat("x", pad))
					}
					cells := []model.Cell{padCell, model.S(k), model.S("y"), model.S(k), model.S(kLast), model.S(kFirst), model.S(k)}
					n := len(cells)
					kc := model.Col{Name: "k1", Kind: kind, Cells: cells}
					f := model.Frame{N: n, Cols: []model.Col{kc}}
					for _, vc := range c04ValCols {
						if op == "distinct" && vc.Name != "vb" {
							continue
						}
						vc.Cells = append(append([]model.Cell{}, vc.Cells...), vc.Cells[1])[:n]
						f.Cols = append(f.Cols, vc)
					}
					c := groupCase{Op: op, Frame: f, Shape: int(ctx.Index() % int64(model.NShapes)), By: []string{"k1"}, GroupNull: gn}
					ctx.Exec(c, func() *core.Failure { return runGroupCase(c) })
					ctx.Outcome("api/key-length-alignment")
					ctx.Nontrivial(fmt.Sprintf("klen|%d|%d|%s|%v", l, pad, kind, gn))
				}
			}
		}
	}
}

// bigGroupLayerRun: 100 rows in three groups of 1, 9 and 90 rows (interleaved), alone and split
// further by a second (string, with nulls) key: group sizes beyond any unrolled or blocked loop.
func bigGroupLayerRun(ctx *core.Ctx, op string) {
	const n = 100
	k1 := model.Col{Name: "k1", Kind: model.Int}
	k2 := model.Col{Name: "k2", Kind: model.String}
	for r := 0; r < n; r++ {
		switch {
		case r == 37:
			k1.Cells = append(k1.Cells, model.I(0))
		case r%11 == 3:
			k1.Cells = append(k1.Cells, model.I(1))
		default:
			k1.Cells = append(k1.Cells, model.I(2))
		}
		if r%4 == 3 {
			k2.Cells = append(k2.Cells, model.Null())
		} else {
			k2.Cells = append(k2.Cells, model.S(string(rune('a'+r%4))))
		}
	}
	f := model.Frame{N: n, Cols: []model.Col{k1, k2}}
	for _, vc := range c04ValCols {
		if op == "distinct" && vc.Name != "vb" {
			continue
		}
		nc := model.Col{Name: vc.Name, Kind: vc.Kind, EnumVals: vc.EnumVals}
		for r := 0; r < n; r++ {
			nc.Cells = append(nc.Cells, vc.Cells[(r*5+r/6)%6])
		}
		f.Cols = append(f.Cols, nc)
	}
	for _, by := range [][]string{{"k1"}, {"k1", "k2"}, {"k2"}} {
		for _, gn := range []bool{false, true} {
			for shape := 0; shape < model.NShapes; shape++ {
				if !ctx.Mine() {
					continue
				}
				c := groupCase{Op: op, Frame: f, Shape: shape, By: by, GroupNull: gn}
				ctx.Exec(c, func() *core.Failure { return runGroupCase(c) })
				ctx.Outcome("api/big-groups")
				ctx.Nontrivial(fmt.Sprintf("big|%v|%v|%d", by, gn, shape))
			}
		}
	}
}

// groupSizeSweepRun: one group of every size 1..40 (and around 64/128) next to a small second group,
// with two value patterns: mixed, and "the last five rows of the group differ from the rest"
// (block-wise aggregation kernels and their scalar tails).
func groupSizeSweepRun(ctx *core.Ctx, op string) {
	var sizes []int
	for g := 1; g <= 40; g++ {
		sizes = append(sizes, g)
	}
	sizes = append(sizes, 63, 64, 65, 127, 128, 129)
	for _, g := range sizes {
		for pattern := 0; pattern < 2; pattern++ {
			if !ctx.Mine() {
				continue
			}
			// rows of the small group at positions 0, 2 and after the big group
			n := g + 3
			k1 := model.Col{Name: "k1", Kind: model.Int, Cells: make([]model.Cell, n)}
			var bigRows []int
			for r := 0; r < n; r++ {
				if r == 0 || r == 2 || r == n-1 && g > 1 || (g == 1 && r == 3) {
					k1.Cells[r] = model.I(7)
				} else {
					k1.Cells[r] = model.I(3)
					bigRows = append(bigRows, r)
				}
			}
			f := model.Frame{N: n, Cols: []model.Col{k1}}
			for _, vc := range c04ValCols {
				if op == "distinct" && vc.Name != "vb" {
					continue
				}
				nc := model.Col{Name: vc.Name, Kind: vc.Kind, EnumVals: vc.EnumVals, Cells: make([]model.Cell, n)}
				for r := 0; r < n; r++ {
					nc.Cells[r] = vc.Cells[(r*5+r/6)%6]
				}
				if pattern == 1 {
					// the big group's rows all carry cell 1, its last five rows cell 0
					for j, r := range bigRows {
						if j >= len(bigRows)-5 {
							nc.Cells[r] = vc.Cells[0]
						} else {
							nc.Cells[r] = vc.Cells[1]
						}
					}
				}
				f.Cols = append(f.Cols, nc)
			}
			c := groupCase{Op: op, Frame: f, Shape: int(ctx.Index() % int64(model.NShapes)), By: []string{"k1"}}
			ctx.Exec(c, func() *core.Failure { return runGroupCase(c) })
			ctx.Outcome("api/group-size-sweep")
			ctx.Nontrivial(fmt.Sprintf("gsize|%d|%d", g, pattern))
		}
	}
}

// manyRowsLayerRun: 255..1500 rows over 37 distinct keys (every key occurs again after any batch or
// block boundary) and 8191..20001 rows with thousands of keys, int and string keys.
func manyRowsLayerRun(ctx *core.Ctx, op string) {
	type spec struct{ n, keys int }
	specs := []spec{{255, 37}, {256, 37}, {257, 37}, {600, 37}, {1500, 37},
		// exactly 2^k (and one less, one more) distinct keys from a contiguous range, every key at least twice
		{135, 63}, {135, 64}, {135, 65}, {263, 127}, {263, 128}, {263, 129}, {519, 255}, {519, 256}, {519, 257},
		{1031, 511}, {1031, 512}, {1031, 513}, {2055, 1023}, {2055, 1024}, {2055, 1025}, {8199, 4095}, {8199, 4096}, {8199, 4097},
		// all keys distinct (a class first seen in the last rows must still get its row), around 2*4096 and beyond
		{8191, 8191}, {8192, 8192}, {8193, 8193}, {10000, 10000}, {20001, 5000}}
	if !ctx.Quick() {
		specs = append(specs, spec{131079, 65535}, spec{131079, 65536}, spec{131079, 65537})
	}
	for _, sp := range specs {
		n := sp.n
		for _, kind := range []model.Kind{model.Int, model.String} {
			for _, gn := range []bool{false, true} {
				if sp.keys > 37 && (kind == model.String) == gn {
					continue // the large ones: int keys with Null(true), string keys with Null(false)
				}
				if !ctx.Mine() {
					continue
				}
				k1 := model.Col{Name: "k1", Kind: kind}
				for r := 0; r < n; r++ {
					key := (r * 29) % sp.keys
					switch {
					case kind == model.Int && sp.keys > 37 && sp.keys < 8191:
						k1.Cells = append(k1.Cells, model.I(key-sp.keys/2)) // a range around zero
					case kind == model.Int:
						k1.Cells = append(k1.Cells, model.I(key))
					case key == 11:
						k1.Cells = append(k1.Cells, model.Null())
					default:
						k1.Cells = append(k1.Cells, model.S(fmt.Sprintf("key-%02d", key)))
					}
				}
				f := model.Frame{N: n, Cols: []model.Col{k1}}
				for _, vc := range c04ValCols {
					if op == "distinct" && vc.Name != "vb" {
						continue
					}
					nc := model.Col{Name: vc.Name, Kind: vc.Kind, EnumVals: vc.EnumVals}
					for r := 0; r < n; r++ {
						nc.Cells = append(nc.Cells, vc.Cells[(r*5+r/6)%6])
					}
					f.Cols = append(f.Cols, nc)
				}
				c := groupCase{Op: op, Frame: f, Shape: int(ctx.Index() % int64(model.NShapes)), By: []string{"k1"}, GroupNull: gn}
				ctx.Exec(c, func() *core.Failure { return runGroupCase(c) })
				ctx.Outcome("api/many-rows")
				ctx.Nontrivial(fmt.Sprintf("many|%d|%s|%v", n, kind, gn))
			}
		}
	}
}

// upperKeyLayerRun: grouping by an enum column that went through the built-in ToUpper, for every declared
// order of {x, X, y} (values that become equal must become ONE key whatever their order in the value table)
func upperKeyLayerRun(ctx *core.Ctx, op string) {
	vals := []string{"x", "X", "y"}
	cells := []model.Cell{model.S("x"), model.S("X"), model.S("y"), model.Null()}
	forEachPerm(len(vals), func(p []int) {
		decl := []string{vals[p[0]], vals[p[1]], vals[p[2]]}
		for n := 1; n <= 4; n++ {
			forEachSeq(n, len(cells), func(seq []int) {
				for _, gn := range []bool{false, true} {
					if !ctx.Mine() {
						continue
					}
					k1 := model.Col{Name: "k1", Kind: model.Enum, EnumVals: decl}
					for _, v := range seq {
						k1.Cells = append(k1.Cells, cells[v])
					}
					f := model.Frame{N: n, Cols: []model.Col{k1}}
					for _, vc := range c04ValCols {
						if op == "distinct" && vc.Name != "vb" {
							continue
						}
						vc.Cells = vc.Cells[:n]
						f.Cols = append(f.Cols, vc)
					}
					c := groupCase{Op: op, Frame: f, Shape: int(ctx.Index() % int64(model.NShapes)), By: []string{"k1"}, GroupNull: gn, UpperKey: true}
					ctx.Exec(c, func() *core.Failure { return runGroupCase(c) })
					ctx.Outcome("api/upper-cased-enum-key")
					ctx.Nontrivial(fmt.Sprintf("upper|%v|%v|%v", decl, seq, gn))
				}
			})
		}
	})
}

// oddNamesLayerRun: key columns whose names look like decorated versions of each other ("-k" next to "k",
// "k desc", "+k", ...): a column name is taken literally, whatever other columns exist.
func oddNamesLayerRun(ctx *core.Ctx, op string) {
	pairs := [][2]string{{"-k", "k"}, {"k", "-k"}, {"+k", "k"}, {"!k", "k"}, {"k desc", "k"}, {"k", "K"}, {" k", "k"}, {"-k", "w"}, {"k.1", "k"}, {"k,w", "w"}}
	for _, pr := range pairs {
		forEachSeq(3, 4, func(seq []int) {
			for _, by := range [][]string{{pr[0]}, {pr[1]}, {pr[0], pr[1]}, {}} {
				for _, gn := range []bool{false, true} {
					if !ctx.Mine() {
						continue
					}
					c1 := model.Col{Name: pr[0], Kind: model.Int}
					c2 := model.Col{Name: pr[1], Kind: model.Int}
					for _, v := range seq {
						c1.Cells = append(c1.Cells, model.I(v/2))
						c2.Cells = append(c2.Cells, model.I(v%2))
					}
					f := model.Frame{N: 3, Cols: []model.Col{c1, c2}}
					for _, vc := range c04ValCols {
						if op == "distinct" && vc.Name != "vb" {
							continue
						}
						vc.Cells = vc.Cells[:3]
						f.Cols = append(f.Cols, vc)
					}
					c := groupCase{Op: op, Frame: f, Shape: int(ctx.Index() % int64(model.NShapes)), By: by, GroupNull: gn, ByDefault: len(by) == 0}
					ctx.Exec(c, func() *core.Failure { return runGroupCase(c) })
					ctx.Outcome("api/decorated-column-names")
					if g := partitionRows(f, by, gn); len(g) > 1 && len(g) < 3 {
						ctx.Nontrivial(fmt.Sprintf("names|%v|%v|%v|%v", pr, seq, by, gn))
					}
				}
			}
		})
	}
}

// batteryLayerRun: latent state. The battery frame in every index shape, and one three-row input frame per key type
// (deep battery: the frame itself and frames derived from it by one further operation each).
func batteryLayerRun(ctx *core.Ctx, op string) {
	for shape := 0; shape < model.NShapes; shape++ {
		if ctx.Mine() {
			c := groupCase{Op: op, Shape: shape, Battery: 3}
			ctx.Exec(c, func() *core.Failure { return runGroupCase(c) })
			ctx.Outcome("api/latent-state-battery")
			ctx.Nontrivial(fmt.Sprintf("battery|%d", shape))
		}
	}
	for _, k1 := range []model.Kind{model.Int, model.Float, model.Bool, model.String, model.Enum} {
		a1 := c04KeyAlphabet(k1)
		for shape := 0; shape < model.NShapes; shape += 3 {
			if !ctx.Mine() {
				continue
			}
			c1 := model.Col{Name: "k1", Kind: k1}
			if k1 == model.Enum {
				c1.EnumVals = []string{"b", "a"}
			}
			for i := 0; i < 3; i++ {
				c1.Cells = append(c1.Cells, a1[(i*2+1)%len(a1)])
			}
			f := model.Frame{N: 3, Cols: []model.Col{c1}}
			for _, vc := range c04ValCols {
				vc.Cells = vc.Cells[:3]
				f.Cols = append(f.Cols, vc)
			}
			c := groupCase{Op: op, Frame: f, Shape: shape, By: []string{"k1"}, Battery: 2}
			ctx.Exec(c, func() *core.Failure { return runGroupCase(c) })
			ctx.Outcome("api/latent-state-battery")
			ctx.Nontrivial(fmt.Sprintf("battery-in|%s|%d", k1, shape))
		}
	}
}

// chainLayerRun: the call under test on the result of an earlier Distinct (see groupCase.Chain); one or two
// key columns of every type over {null, x, y}.
func chainLayerRun(ctx *core.Ctx, op string) {
	kinds := []model.Kind{model.Int, model.Float, model.Bool, model.String, model.Enum}
	for _, k1 := range kinds {
		a1 := c04KeyAlphabet(k1)
		for n := 2; n <= 4; n++ {
			forEachSeq(n, len(a1), func(seq []int) {
				for _, by := range [][]string{{"k1"}, {"k1", "k2"}, {}} {
					for _, gn := range []bool{false, true} {
						for chain := 1; chain <= 4; chain++ {
							if !ctx.Mine() {
								continue
							}
							c1 := model.Col{Name: "k1", Kind: k1}
							c2 := model.Col{Name: "k2", Kind: model.String}
							if k1 == model.Enum {
								c1.EnumVals = []string{"b", "a"}
							}
							for i, v := range seq {
								c1.Cells = append(c1.Cells, a1[v])
								if i%2 == 0 {
									c2.Cells = append(c2.Cells, model.Null())
								} else {
									c2.Cells = append(c2.Cells, model.S("q"))
								}
							}
							f := model.Frame{N: n, Cols: []model.Col{c1, c2}}
							for _, vc := range c04ValCols {
								if op == "distinct" && vc.Name != "vb" {
									continue
								}
								vc.Cells = vc.Cells[:n]
								f.Cols = append(f.Cols, vc)
							}
							c := groupCase{Op: op, Frame: f, Shape: int(ctx.Index() % int64(model.NShapes)), By: by, GroupNull: gn, ByDefault: len(by) == 0, Chain: chain}
							ctx.Exec(c, func() *core.Failure { return runGroupCase(c) })
							ctx.Outcome("api/after-an-earlier-distinct")
							if g := partitionRows(f, by, true); len(g) < n {
								ctx.Nontrivial(fmt.Sprintf("chain|%s|%v|%v|%v|%d", k1, seq, by, gn, chain))
							}
						}
					}
				}
			})
		}
	}
}

func init() {
	common := []string{
		"layer 1 drives the repository's hash table (internal/grouper) through its Comparable interface with harness-chosen hash values; layer 2 uses the public API with the real runtime hash",
		"key equality in the model: same value (0.0 = -0.0), nulls equal only with Null(true)",
		"cell values limited to the per-type alphabets (plus string keys of 21 lengths between 1 and 65 bytes at 9 byte alignments); at most 2 key columns",
	}
	core.Register(&core.Check{
		ID:    "C04",
		Level: "model_checking",
		Rule: "case = (key pattern as restricted-growth string with nulls, hash value per key / per ungrouped null row, Null option, physical layout) for the table layer; " +
			"(frame over per-type alphabets, key column selection and order, Null option, index shape) for the API layer, each with 19 aggregations incl. recording user functions and the library's StrJoin and QFrames(). " +
			"Non-trivial = two different keys share a bucket (table layer) / more than one group and fewer groups than rows (API layer); distinct by case content.",
		Assumptions: common,
		Bound: map[string]string{
			"quick":    "table: all patterns n<=5 x 6 hash values, n=6 x 4 hash values, growth families 5..11 keys with <=2 repeats (thinned); API: all frames n<=3, 25 key-type pairs; every key pattern of 3..5 rows in every physical permutation",
			"thorough": "table: all patterns n<=6 x 6 hash values, n<=8 x 4 hash values, growth families with all <=2 repeats; API: all frames n<=4; every key pattern of 3..6 rows in every physical permutation",
		},
		Run: func(ctx *core.Ctx) {
			tableLayerRun(ctx, "groupby")
			largeTableCases(ctx, "groupby")
			groupLayerRun(ctx, "groupby")
			permLayerRun(ctx, "groupby")
			keyLengthLayerRun(ctx, "groupby")
			bigGroupLayerRun(ctx, "groupby")
			groupSizeSweepRun(ctx, "groupby")
			manyRowsLayerRun(ctx, "groupby")
			upperKeyLayerRun(ctx, "groupby")
			oddNamesLayerRun(ctx, "groupby")
			chainLayerRun(ctx, "groupby")
			batteryLayerRun(ctx, "groupby")
		},
		Replay: replayGroup,
	})
	core.Register(&core.Check{
		ID:    "C05",
		Level: "model_checking",
		Rule: "same enumerations as C04 with Distinct: table layer (grouper.Distinct under chosen hashes) and API layer (QFrame.Distinct with explicit columns, without columns, both Null settings, 8 index shapes). " +
			"Non-trivial = colliding keys (table layer) / some but not all rows are duplicates (API layer).",
		Assumptions: common,
		Bound: map[string]string{
			"quick":    "table: all patterns n<=5 x 6 hash values, n=6 x 4; API: all frames n<=3",
			"thorough": "table: n<=6 x 6, n<=8 x 4; API: all frames n<=4",
		},
		Run: func(ctx *core.Ctx) {
			tableLayerRun(ctx, "distinct")
			largeTableCases(ctx, "distinct")
			groupLayerRun(ctx, "distinct")
			permLayerRun(ctx, "distinct")
			keyLengthLayerRun(ctx, "distinct")
			bigGroupLayerRun(ctx, "distinct")
			groupSizeSweepRun(ctx, "distinct")
			manyRowsLayerRun(ctx, "distinct")
			upperKeyLayerRun(ctx, "distinct")
			oddNamesLayerRun(ctx, "distinct")
			chainLayerRun(ctx, "distinct")
			batteryLayerRun(ctx, "distinct")
		},
		Replay: replayGroup,
	})
}

func replayGroup(raw json.RawMessage) *core.Failure {
	// both case kinds carry "op"; table cases have "keys"
	if strings.Contains(string(raw), `"keys"`) {
		return replayAs(runTableCase)(raw)
	}
	return replayAs(runGroupCase)(raw)
}
