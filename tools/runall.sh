#!/bin/bash
# usage: tools/runall.sh [quick|thorough] — runs every registered check and validates manifest + evidence
TIER="${1:-quick}"
cd "$(dirname "$0")/.."
fail=0
for id in $(jq -r '.checks[].property_id' MANIFEST.json); do
  out=$(./run.sh $id $TIER 2>&1); rc=$?
  echo "$out" | grep -E "^KNOWN-FINDING|^VIOLATION|HARNESS-ERROR" | cut -c1-160
  echo "$out" | tail -1 | cut -c1-200
  [ $rc -ne 0 ] && { echo "!! $id exit=$rc"; fail=1; }
done
python3-vt - <<'PY'
import json, jsonschema, sys
m = json.load(open("MANIFEST.json"))
jsonschema.validate(m, json.load(open("/root/.vp/MANIFEST.schema.json")))
es = json.load(open("/root/.vp/EVIDENCE.schema.json"))
for c in m["checks"]:
    try:
        e = json.load(open(c["evidence_file"]))
        jsonschema.validate(e, es)
        assert e["level"] == c["level_claimed"]["category"], "level mismatch"
    except Exception as ex:
        print("EVIDENCE INVALID", c["property_id"], str(ex)[:200]); sys.exit(1)
print("manifest + %d evidence files valid" % len(m["checks"]))
PY
exit $fail
