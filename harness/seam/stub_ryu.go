//go:build verif

package verifseam

const RyuAvailable = false

func AppendFloat64f(b []byte, f float64) []byte { panic("ryu seam unavailable") }
