package checks

import (
	"bytes"
	"fmt"
	"math"
	"strings"

	"github.com/tobgu/qframe"
	"github.com/tobgu/qframe/config/csv"
	"github.com/tobgu/qframe/config/groupby"

	"verif/harness/core"
	"verif/harness/model"
)

// C13 — ToCSV followed by ReadCSV reproduces the frame.

type rtCase struct {
	// Rows > 0: generated frame of Rows rows (int id, string s, float f) for the output-size sweep
	Rows int `json:"rows,omitempty"`
	// LongCell > 0 (with Rows): the string cell of row 2 has this many bytes
	LongCell int `json:"long_cell,omitempty"`
	// QuotePad > 0: the frame is {id: [0,1,2], s: ["y" x QuotePad, c13QuoteCells[QuoteCell], "z"]}: a cell with runs of quote
	// characters at a chosen offset of the document (every offset across the reader's buffer refills)
	QuotePad  int         `json:"quote_pad,omitempty"`
	QuoteCell int         `json:"quote_cell,omitempty"`
	Frame     model.Frame `json:"frame"`
	Shape     int         `json:"shape"`
	Header    bool        `json:"header"`
	Columns   []string    `json:"columns,omitempty"`
	EmptyNull bool        `json:"empty_null"`
	// Battery: the frame read back also goes through the latent-state battery (battery.go): follow-up operations on it
	Battery bool `json:"battery,omitempty"`
	// AggAs: the frame written is the result of GroupBy(first column).Aggregate(count of the second column As <AggAs>)
	// (a column that got its name from an aggregation), written with Columns in reverse order
	AggAs string `json:"agg_as,omitempty"`
}

func c13Alphabet(k model.Kind, reduced bool) []model.Cell {
	switch k {
	case model.Int:
		if reduced {
			return []model.Cell{model.I(0), model.I(math.MinInt64)}
		}
		return []model.Cell{model.I(0), model.I(-1), model.I(math.MaxInt64), model.I(math.MinInt64)}
	case model.Float:
		if reduced {
			return []model.Cell{model.F(math.Copysign(0, -1)), model.NaN()}
		}
		return []model.Cell{model.F(0), model.F(math.Copysign(0, -1)), model.F(1.5), model.F(5e-324), model.F(math.MaxFloat64), model.F(1e21), model.F(0.1), model.F(9223372036854775808), model.F(-9.5e18), model.F(9007199254740993),
			model.F(math.Inf(1)), model.F(math.Inf(-1)), model.NaN()}
	case model.Bool:
		return []model.Cell{model.B(false), model.B(true)}
	case model.String:
		if reduced {
			return []model.Cell{model.Null(), model.S("a,\"\nb")}
		}
		var out []model.Cell
		out = append(out, model.Null())
		for _, s := range []string{"", "a", " a", "a ", `"`, `a"b`, ",", "a\nb", "\n", "\xff\xfe", `\.`, "1", "true", "a,\xff", "\xe9\"\n"} {
			out = append(out, model.S(s))
		}
		return out
	case model.Enum:
		if reduced {
			return []model.Cell{model.Null(), model.S("b")}
		}
		return []model.Cell{model.Null(), model.S("b"), model.S("a"), model.S("c,\n")}
	}
	return nil
}

var c13EnumVals = []string{"b", "c,\n", "a"} // declared order differs from the alphabet

func expectedReadBack(f model.Frame, cols []string, emptyNull bool) model.Frame {
	w := model.Frame{N: f.N}
	for _, name := range cols {
		c, _, _ := f.Col(name)
		nc := model.Col{Name: c.Name, Kind: c.Kind, EnumVals: c.EnumVals, Cells: make([]model.Cell, len(c.Cells))}
		for i, cell := range c.Cells {
			switch c.Kind {
			case model.String, model.Enum:
				switch {
				case emptyNull && (cell.Null || cell.S == ""):
					nc.Cells[i] = model.Null()
				case cell.Null:
					nc.Cells[i] = model.S("")
				default:
					nc.Cells[i] = cell
				}
			default:
				nc.Cells[i] = cell
			}
		}
		w.Cols = append(w.Cols, nc)
	}
	return w
}

var c13QuoteCells = []string{`""`, `a""`, `""b`, `"""`, `""""`, `a"""""b`, `"`, `","`, "\"\n\"", `""",""`}

func runRTCase(c rtCase) *core.Failure {
	if c.QuotePad > 0 {
		c.Frame = model.Frame{N: 3, Cols: []model.Col{
			{Name: "id", Kind: model.Int, Cells: []model.Cell{model.I(0), model.I(1), model.I(2)}},
			{Name: "s", Kind: model.String, Cells: []model.Cell{model.S(strings.Repeat("y", c.QuotePad)), model.S(c13QuoteCells[c.QuoteCell%len(c13QuoteCells)]), model.S("z")}},
		}}
	}
	if c.Rows > 0 {
		id := model.Col{Name: "id", Kind: model.Int}
		sc := model.Col{Name: "s", Kind: model.String}
		fc := model.Col{Name: "f", Kind: model.Float}
		for r := 0; r < c.Rows; r++ {
			id.Cells = append(id.Cells, model.I(r))
			if c.LongCell > 0 && r == 2 {
				sc.Cells = append(sc.Cells, model.S(strings.Repeat("y", c.LongCell)+","))
			} else {
				sc.Cells = append(sc.Cells, model.S(strings.Repeat("y", 1+r%4)+","))
			}
			if r%2 == 0 {
				fc.Cells = append(fc.Cells, model.F(float64(r)/8))
			} else {
				// full-precision doubles (16-17 significant digits) spread over [9, 10) and [0.1, 1)
				v := 9 + float64(r)/float64(7*c.Rows+3)
				if r%4 == 3 {
					v = 0.1 + 0.9*float64(r)/float64(7*c.Rows+3)
				}
				fc.Cells = append(fc.Cells, model.F(v))
			}
		}
		c.Frame = model.Frame{N: c.Rows, Cols: []model.Col{id, sc, fc}}
	}
	c.Frame.Fix()
	qf := model.BuildShape(c.Frame, c.Shape)
	in := model.ObserveAs(qf, c.Frame)
	if in.Err {
		return core.Failf("could not build frame: %s", in.ErrText)
	}
	in.AdoptMeta(c.Frame)
	if c.AggAs != "" && len(in.Cols) >= 2 {
		qf = qf.GroupBy(groupby.Columns(in.Cols[0].Name), groupby.Null(true)).Aggregate(qframe.Aggregation{Fn: "count", Column: in.Cols[1].Name, As: c.AggAs}).Sort(qframe.Order{Column: in.Cols[0].Name})
		meta := in
		in = model.Observe(qf)
		if in.Err {
			return core.Failf("could not aggregate: %s", in.ErrText)
		}
		in.AdoptMeta(meta)
		c.Columns = []string{c.AggAs, in.Cols[0].Name}
	}
	var opts []csv.ToConfigFunc
	if !c.Header {
		opts = append(opts, csv.Header(false))
	}
	cols := in.Names()
	if c.Columns != nil {
		opts = append(opts, csv.Columns(c.Columns))
		cols = c.Columns
	}
	var buf bytes.Buffer
	if err := qf.ToCSV(&buf, opts...); err != nil {
		return core.Failf("ToCSV failed: %v", err)
	}
	out := buf.Bytes()
	desc := fmt.Sprintf("frame %s shape %s header=%v columns=%v emptyNull=%v\n written: %q", in, model.ShapeNames[c.Shape], c.Header, c.Columns, c.EmptyNull, out)
	// independent reader: the reference parser must see header + one record per row with the expected cell texts
	recs, err := model.ParseCSV(out, ',', false)
	if err != nil {
		return core.Failf("ToCSV output is not well-formed CSV (%v): %s", err, desc)
	}
	wantRecs := in.N
	if c.Header {
		wantRecs++
	}
	if len(recs) != wantRecs {
		return core.Failf("ToCSV wrote %d records, want %d: %s", len(recs), wantRecs, desc)
	}
	off := 0
	if c.Header {
		off = 1
		if strings.Join(recs[0], "\x00") != strings.Join(cols, "\x00") {
			return core.Failf("ToCSV header %q, want %q: %s", recs[0], cols, desc)
		}
	}
	for r := 0; r < in.N; r++ {
		if len(recs[r+off]) != len(cols) {
			return core.Failf("ToCSV record %d has %d fields: %s", r, len(recs[r+off]), desc)
		}
		for ci, name := range cols {
			col, _, _ := in.Col(name)
			if !textDenotes(col.Kind, col.Cells[r], recs[r+off][ci]) {
				return core.Failf("ToCSV row %d column %s: field %q does not denote %s: %s", r, name, recs[r+off][ci], model.CellString(col.Kind, col.Cells[r]), desc)
			}
		}
	}
	// read back
	typs := map[string]string{}
	enums := map[string][]string{}
	for _, col := range in.Cols {
		typs[col.Name] = string(col.Kind)
		if col.Kind == model.Enum {
			vals := append([]string(nil), col.EnumVals...)
			if !c.EmptyNull {
				// null enum cells are written as "" and come back as the value "": it has to be declared
				hasNull := false
				for _, cell := range col.Cells {
					hasNull = hasNull || cell.Null
				}
				if hasNull {
					vals = append(vals, "")
				}
			}
			enums[col.Name] = vals
		}
	}
	rc := []csv.ConfigFunc{csv.Types(typs)}
	if len(enums) > 0 {
		rc = append(rc, csv.EnumValues(enums))
	}
	if !c.Header {
		rc = append(rc, csv.Headers(cols))
	}
	if c.EmptyNull {
		rc = append(rc, csv.EmptyNull(true))
	}
	firstRead := qframe.ReadCSV(bytes.NewReader(out), rc...)
	back := model.Observe(firstRead)
	want := expectedReadBack(in, cols, c.EmptyNull)
	if d := model.Diff(want, back); d != "" {
		return core.Failf("ReadCSV(ToCSV(frame)) differs: %s\n %s\n want: %s\n  got: %s", d, desc, want, back)
	}
	// a second read with the SAME option values (options are values a program keeps): same frame, and an enum
	// column read that way still is the declared, strict enum
	again := qframe.ReadCSV(bytes.NewReader(out), rc...)
	if d := model.Diff(want, model.Observe(again)); d != "" {
		return core.Failf("a second ReadCSV with the same option values differs: %s\n %s", d, desc)
	}
	if c.Battery {
		what := "the frame read back by ReadCSV: " + desc
		if f := latentBattery(again, enums, what); f != nil {
			return f
		}
		if f := bookkeepingBattery(again, what); f != nil {
			return f
		}
	}
	// the frame returned by the first read is a value of its own: reading again must not change it
	if now := model.Observe(firstRead); now.String() != back.String() {
		return core.Failf("the frame returned by the first ReadCSV changed when the document was read a second time:\n before: %s\n  after: %s\n %s", back, now, desc)
	}
	for name := range enums {
		if r := again.Filter(qframe.Filter{Column: name, Comparator: "=", Arg: "~never declared~"}); r.Err == nil && len(enums[name]) > 0 {
			return core.Failf("after a second ReadCSV with the same option values column %s accepts an undeclared constant: it lost its declared values\n %s", name, desc)
		}
	}
	return nil
}

func c13Run(ctx *core.Ctx) {
	exec := func(c rtCase, outcome string) {
		ctx.Exec(c, func() *core.Failure { return runRTCase(c) })
		ctx.Outcome(outcome)
		ctx.Nontrivial(fmt.Sprintf("%s|%d|%v|%v|%v|%d|%d|%d|%d", c.Frame.String(), c.Shape, c.Header, c.Columns, c.EmptyNull, c.Rows, c.LongCell, c.QuotePad, c.QuoteCell))
		if ctx.WantSample() && ctx.Index()%3511 == 19 {
			ctx.Sample(map[string]interface{}{"frame": c.Frame.String(), "shape": model.ShapeNames[c.Shape], "header": c.Header, "columns": c.Columns, "empty_null": c.EmptyNull})
		}
	}
	kinds := []model.Kind{model.Int, model.Float, model.Bool, model.String, model.Enum}
	mkCol := func(name string, k model.Kind, cells []model.Cell) model.Col {
		c := model.Col{Name: name, Kind: k, Cells: cells}
		if k == model.Enum {
			c.EnumVals = c13EnumVals
		}
		return c
	}
	maxN := 3
	if !ctx.Quick() {
		maxN = 4
	}
	// family A: one column, all cell sequences; plus the same column next to an int id column
	for _, k := range kinds {
		alpha := c13Alphabet(k, false)
		for n := 0; n <= maxN; n++ {
			forEachSeq(n, len(alpha), func(seq []int) {
				for _, withID := range []bool{false, true} {
					for _, hdr := range []bool{true, false} {
						for _, en := range []bool{false, true} {
							for shape := 0; shape < model.NShapes; shape++ {
								if ctx.Quick() && n == 3 && !withID && shape != (seq[0]+2*seq[1]+3*seq[2])%model.NShapes {
									continue // quick: one shape per 3-row single-column frame
								}
								if n == 4 && (withID || shape != (seq[0]+2*seq[1]+3*seq[2]+5*seq[3])%model.NShapes) {
									continue // 4-row frames: one shape each, without the id column
								}
								if !ctx.Mine() {
									continue
								}
								cells := make([]model.Cell, n)
								for i, v := range seq {
									cells[i] = alpha[v]
								}
								f := model.Frame{N: n, Cols: []model.Col{mkCol("v", k, cells)}}
								if withID {
									id := make([]model.Cell, n)
									for i := range id {
										id[i] = model.I(i)
									}
									f.Cols = append(f.Cols, mkCol("id", model.Int, id))
								}
								exec(rtCase{Frame: f, Shape: shape, Header: hdr, EmptyNull: en}, "single/"+string(k))
							}
						}
					}
				}
			})
		}
	}
	// output-size sweep: every row count 1..500 (the writer buffers 4096 bytes)
	for rows := 1; rows <= 500; rows++ {
		if ctx.Mine() {
			exec(rtCase{Rows: rows, Shape: rows % model.NShapes, Header: rows%2 == 0}, "size-sweep")
		}
	}
	// cells with runs of quote characters starting at every document offset up to 4300 (across the reader's refills)
	for pad := 1; pad <= 4300; pad++ {
		for qc := range c13QuoteCells {
			if ctx.Mine() {
				exec(rtCase{QuotePad: pad, QuoteCell: qc, Shape: pad % model.NShapes, Header: true}, "quote-runs-at-every-offset")
			}
		}
	}
	// a very long cell (the reader's buffer has to grow beyond 64 KiB) followed by many short rows
	for _, lc := range []int{5000, 33000, 70000, 140000} {
		for _, rows := range []int{3, 50, 600} {
			if ctx.Mine() {
				exec(rtCase{Rows: rows, LongCell: lc, Shape: rows % model.NShapes, Header: true}, "long-cell")
			}
		}
	}
	// rows mixing long unquoted cells (64+ bytes: long strings, floats whose positional form has hundreds
	// of digits) with quoted cells that contain line feeds, delimiters and quotes, in every column order
	{
		long1, long2 := strings.Repeat("x", 70), strings.Repeat("yz", 45)
		cols := []model.Col{
			{Name: "a", Kind: model.String, Cells: []model.Cell{model.S(long1), model.S("s"), model.S(long2)}},
			{Name: "b", Kind: model.String, Cells: []model.Cell{model.S("q\nr"), model.S("u,\"v\"\n"), model.S("\n")}},
			{Name: "c", Kind: model.String, Cells: []model.Cell{model.S(long2), model.S(long1), model.S("t")}},
			{Name: "d", Kind: model.Float, Cells: []model.Cell{model.F(1e80), model.F(math.MaxFloat64), model.F(5e-324)}},
			{Name: "e", Kind: model.Float, Cells: []model.Cell{model.F(-1e300), model.F(0.5), model.F(1e-300)}},
		}
		forEachPerm(len(cols), func(p []int) {
			for _, k := range []int{3, 4, 5} {
				if !ctx.Mine() {
					continue
				}
				f := model.Frame{N: 3}
				for _, ci := range p[:k] {
					f.Cols = append(f.Cols, cols[ci])
				}
				exec(rtCase{Frame: f, Shape: int(ctx.Index() % int64(model.NShapes)), Header: true}, "long-and-quoted-cells")
			}
		})
	}
	// family C: the first bytes of the document, of a line, of a name: values and column names that start with
	// bytes a reader might give a meaning to (byte order marks, NUL, comment and formula characters, blanks)
	for _, pre := range []string{"\ufeff", "\x00", "#", ";", "//", "\xef\xbb", "\xfe\xff", "\xff\xfe", " ", "\t", "=", "+", "-", "@", "%", "\x1a", "\x7f", "\\", "\ufffe", "\u2028"} {
		for place := 0; place < 3; place++ {
			for oi, order := range [][]string{nil, {"e", "id", "s"}, {"id", "s", "e"}, {pre + "n", "s"}} {
				for _, hdr := range []bool{true, false} {
					for _, en := range []bool{false, true} {
						if !ctx.Mine() {
							continue
						}
						plain := []string{"b", "abc", "b"}
						cells := make([]model.Cell, 3)
						for r := range cells {
							switch {
							case place == 2 || place == r:
								cells[r] = model.S(pre + plain[r])
							default:
								cells[r] = model.S(plain[r])
							}
						}
						if place == 1 {
							cells[2] = model.S(pre) // the prefix alone
						}
						f := model.Frame{N: 3, Cols: []model.Col{
							{Name: "s", Kind: model.String, Cells: cells},
							{Name: "e", Kind: model.Enum, EnumVals: []string{"b", pre + "b", pre + "abc", "abc", pre}, Cells: cells},
							{Name: "id", Kind: model.Int, Cells: []model.Cell{model.I(1), model.I(2), model.I(3)}},
						}}
						if oi == 3 {
							// the name of the first column starts with the prefix
							f.Cols = append([]model.Col{{Name: pre + "n", Kind: model.Int, Cells: []model.Cell{model.I(7), model.I(8), model.I(9)}}}, f.Cols[:1]...)
						}
						exec(rtCase{Frame: f, Shape: int(ctx.Index() % int64(model.NShapes)), Header: hdr, Columns: order, EmptyNull: en}, "first-bytes")
					}
				}
			}
		}
	}
	// family D: rows whose cells spell the column names (a data row that looks like the header line), in every
	// position, for one, two and five columns of every type
	{
		look := []model.Col{
			{Name: "a", Kind: model.String, Cells: []model.Cell{model.S("a"), model.S("b")}},
			{Name: "7", Kind: model.Int, Cells: []model.Cell{model.I(7), model.I(1)}},
			{Name: "e", Kind: model.Enum, EnumVals: []string{"x", "e"}, Cells: []model.Cell{model.S("e"), model.S("x")}},
			{Name: "true", Kind: model.Bool, Cells: []model.Cell{model.B(true), model.B(false)}},
			{Name: "1.5", Kind: model.Float, Cells: []model.Cell{model.F(1.5), model.F(2)}},
		}
		var subsets [][]int
		for i := range look {
			subsets = append(subsets, []int{i})
			for j := i + 1; j < len(look); j++ {
				subsets = append(subsets, []int{i, j}, []int{j, i})
			}
		}
		subsets = append(subsets, []int{0, 1, 2, 3, 4})
		for _, sub := range subsets {
			forEachSeq(3, 2, func(seq []int) {
				for _, hdr := range []bool{true, false} {
					for _, en := range []bool{false, true} {
						if !ctx.Mine() {
							continue
						}
						f := model.Frame{N: 3}
						for _, ci := range sub {
							col := model.Col{Name: look[ci].Name, Kind: look[ci].Kind, EnumVals: look[ci].EnumVals}
							for _, v := range seq {
								col.Cells = append(col.Cells, look[ci].Cells[v])
							}
							f.Cols = append(f.Cols, col)
						}
						exec(rtCase{Frame: f, Shape: int(ctx.Index() % int64(model.NShapes)), Header: hdr, EmptyNull: en}, "rows-that-look-like-the-header")
					}
				}
			})
		}
	}
	// family E: latent state. Three columns named s, n, a (not in alphabetical order) of every type combination in
	// every written order; the frame read back goes through the follow-up battery. And frames whose column got its name
	// from an aggregation (As), written with Columns in another order.
	for _, k1 := range kinds {
		for _, k2 := range kinds {
			for pi, p := range [][]int{{0, 1, 2}, {0, 2, 1}, {1, 0, 2}, {1, 2, 0}, {2, 0, 1}, {2, 1, 0}} {
				for _, hdr := range []bool{true, false} {
					if !ctx.Mine() {
						continue
					}
					ks := []model.Kind{k1, k2, model.Int}
					ns := []string{"s", "n", "a"}
					f := model.Frame{N: 2}
					for ci := 0; ci < 3; ci++ {
						al := c13Alphabet(ks[ci], true)
						f.Cols = append(f.Cols, mkCol(ns[ci], ks[ci], []model.Cell{al[1], al[0]}))
					}
					var order []string
					if pi > 0 {
						for _, j := range p {
							order = append(order, ns[j])
						}
					}
					exec(rtCase{Frame: f, Shape: int(ctx.Index() % int64(model.NShapes)), Header: hdr, Columns: order, EmptyNull: true, Battery: true}, "read-back-frame-through-the-battery")
				}
			}
		}
		for _, as := range []string{"n", "cnt", "a b"} {
			if !ctx.Mine() {
				continue
			}
			al := c13Alphabet(k1, true)
			f := model.Frame{N: 3, Cols: []model.Col{mkCol("g", k1, []model.Cell{al[1], al[0], al[1]}), mkCol("x", model.Int, []model.Cell{model.I(1), model.I(2), model.I(3)})}}
			exec(rtCase{Frame: f, Shape: int(ctx.Index() % int64(model.NShapes)), Header: true, EmptyNull: true, AggAs: as}, "aggregated-as-written-in-another-order")
		}
	}
	// family B: three columns of every type combination, reduced alphabets, every column permutation for the writer
	perms := [][]int{{0, 1, 2}, {0, 2, 1}, {1, 0, 2}, {1, 2, 0}, {2, 0, 1}, {2, 1, 0}}
	names := []string{"a", "b", "c"}
	for _, k1 := range kinds {
		for _, k2 := range kinds {
			for _, k3 := range kinds {
				ks := []model.Kind{k1, k2, k3}
				forEachSeq(6, 2, func(seq []int) {
					for pi, p := range perms {
						for _, hdr := range []bool{true, false} {
							for _, en := range []bool{false, true} {
								if !ctx.Mine() {
									continue
								}
								if ctx.Quick() && (pi+seq[0]+seq[3])%2 == 1 {
									continue
								}
								f := model.Frame{N: 2}
								for ci := 0; ci < 3; ci++ {
									al := c13Alphabet(ks[ci], true)
									f.Cols = append(f.Cols, mkCol(names[ci], ks[ci], []model.Cell{al[seq[2*ci]], al[seq[2*ci+1]]}))
								}
								var order []string
								if pi > 0 {
									for _, j := range p {
										order = append(order, names[j])
									}
								}
								exec(rtCase{Frame: f, Shape: int(ctx.Index() % int64(model.NShapes)), Header: hdr, Columns: order, EmptyNull: en}, "multi")
							}
						}
					}
				})
			}
		}
	}
}

func init() {
	core.Register(&core.Check{
		ID:    "C13",
		Level: "model_checking",
		Rule: "case = (frame, index shape, Header option, Columns order, EmptyNull). Family A: one column of each type (optionally next to an id column), ALL cell sequences of length <= 3 over the per-type alphabets " +
			"(strings: null, \"\", blanks, quotes, delimiter, LF, invalid UTF-8, \\., \"1\", \"true\"; floats: +-0, subnormal, max, 1e21, 0.1, 2^63, -9.5e18, 2^53+2, +-Inf, NaN; ints: extremes; enums with declared order) x 8 shapes x Header x EmptyNull; " +
			"size sweep: every row count 1..500 (output across the writer's 4096-byte buffer at every alignment); family B: every type combination of three columns over reduced alphabets x every Columns permutation x Header x EmptyNull. Oracles: the written bytes parsed by the reference RFC 4180 parser give header + one record per row with the expected cell texts; ReadCSV(bytes, Types/EnumValues/Headers) equals the frame (floats bit-identical, NaN preserved, null -> \"\" or \"\" -> null). All cases are non-trivial; distinct by content.",
		Assumptions: []string{
			"strings contain no CR (outside the property)",
			"when EmptyNull is off and an enum column holds nulls, \"\" is added to the enum values declared for reading back (a null is written as an empty field and returns as the value \"\")",
		},
		Bound: map[string]string{
			"quick":    "family A with n<=3 (3-row single-column frames on one shape each), family B half of the permutation/cell combinations",
			"thorough": "family A with n<=4 on every shape, family B complete",
		},
		Run:    c13Run,
		Replay: replayAs(runRTCase),
	})
}
