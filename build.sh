#!/bin/bash
# Builds /verif/bin/qfmc (and with argument "race" /verif/bin/qfmc-race) from
# /verif/harness against /repo's current working tree.
#
# The harness reaches internal packages through the virtual package verifseam (one overlay file per
# internal area) and two overlay files inside internal/sort and internal/fastcsv. If an internal API
# changed so that a seam file no longer compiles, the build is retried with the stub of that area:
# the check layers that need the seam are skipped (and say so), the rest keeps running.
#
# env: VERIF_REPO (default /repo), VERIF_BIN_DIR (default /verif/bin), VERIF_EXTRA_OVERLAY (file with
#      additional `"dst": "src",` lines: files substituted in the tree under test; used by tools/)
set -eu
HERE="$(cd "$(dirname "$0")" && pwd)"
REPO="${VERIF_REPO:-/repo}"
BIN="${VERIF_BIN_DIR:-$HERE/bin}"
export GOFLAGS=-mod=mod GOPROXY=off GOSUMDB=off GOTOOLCHAIN=local
mkdir -p "$BIN" "$HERE/build"
cp "$REPO/go.sum" "$HERE/harness/go.sum"
OV="$BIN/overlay.json"
[ "$BIN" = "$HERE/bin" ] && OV="$HERE/build/overlay.json"
RACE=""; OUT="$BIN/qfmc"
if [ "${1:-}" = "race" ]; then RACE="-race"; OUT="$BIN/qfmc-race"; fi
AREAS="core grouper sort csv strings ryu"
STUBS=""
for attempt in 1 2 3 4 5 6 7; do
  {
    echo '{"Replace": {'
    [ -n "${VERIF_EXTRA_OVERLAY:-}" ] && cat "$VERIF_EXTRA_OVERLAY"
    for a in $AREAS; do
      case " $STUBS " in
        *" $a "*) echo " \"$REPO/verifseam/$a.go\": \"$HERE/harness/seam/stub_$a.go\"," ;;
        *) echo " \"$REPO/verifseam/$a.go\": \"$HERE/harness/seam/$a.go\","
           [ $a = sort ] && echo " \"$REPO/internal/sort/zz_verif.go\": \"$HERE/harness/seam/sort_zz_verif.go\","
           [ $a = csv ] && echo " \"$REPO/internal/fastcsv/zz_verif.go\": \"$HERE/harness/seam/fastcsv_zz_verif.go\"," ;;
      esac
    done
    echo " \"$REPO/verifseam/doc.go\": \"$HERE/harness/seam/doc.go\""
    echo '}}'
  } > "$OV.tmp.$$"
  mv "$OV.tmp.$$" "$OV"
  if (cd "$HERE/harness" && go build $RACE -tags verif -overlay "$OV" -o "$OUT.tmp.$$" . 2> "$OV.err.$$"); then
    mv "$OUT.tmp.$$" "$OUT"
    rm -f "$OV.err.$$"
    echo "$STUBS" > "$OUT.stubs"
    [ -n "$STUBS" ] && echo "build.sh: seams not available for the tree under test (stubs used):$STUBS" >&2
    exit 0
  fi
  NEW=""
  for a in $AREAS; do
    case " $STUBS " in *" $a "*) continue ;; esac
    if grep -q -e "verifseam/$a\.go" -e "seam/$a\.go" "$OV.err.$$"; then NEW="$NEW $a"; fi
  done
  grep -q -e "internal/sort/zz_verif\.go" -e "sort_zz_verif\.go" "$OV.err.$$" && case " $STUBS $NEW " in *" sort "*) ;; *) NEW="$NEW sort" ;; esac
  grep -q -e "internal/fastcsv/zz_verif\.go" -e "fastcsv_zz_verif\.go" "$OV.err.$$" && case " $STUBS $NEW " in *" csv "*) ;; *) NEW="$NEW csv" ;; esac
  case " $NEW " in *" core "*) for a in grouper sort; do case " $STUBS $NEW " in *" $a "*) ;; *) NEW="$NEW $a" ;; esac; done ;; esac
  if [ -z "$NEW" ]; then
    cat "$OV.err.$$" >&2
    rm -f "$OV.err.$$" "$OUT.tmp.$$"
    exit 1
  fi
  STUBS="$STUBS$NEW"
  rm -f "$OV.err.$$"
done
exit 1
