package checks

import (
	"bytes"
	"encoding/json"
	"fmt"
	"math"
	"os"
	"os/exec"
	"path/filepath"
	"sort"
	"strings"
	"sync"

	"github.com/tobgu/qframe"
	"github.com/tobgu/qframe/aggregation"
	qcsv "github.com/tobgu/qframe/config/csv"
	"github.com/tobgu/qframe/config/eval"
	"github.com/tobgu/qframe/config/groupby"
	"github.com/tobgu/qframe/types"

	"verif/harness/core"
	"verif/harness/model"
)

// C11 — A frame may be used by any number of goroutines at once.
// (a) controlled scheduler at callback granularity, (b) free-running -race pass.

type concOp struct {
	name     string
	callback bool
	run      func(q qframe.QFrame, yield func()) string
}

func digestFrame(q qframe.QFrame) string {
	o := model.Observe(q)
	if o.Err {
		return "ERR:" + o.ErrText
	}
	return o.String()
}

func digestUnordered(q qframe.QFrame) string {
	o := model.Observe(q)
	if o.Err {
		return "ERR:" + o.ErrText
	}
	rows := make([]string, o.N)
	for r := range rows {
		rows[r] = rowKey(o, r)
	}
	sort.Strings(rows)
	return fmt.Sprint(o.Names(), rows)
}

// one evaluation context shared by all operations (created at package initialisation: the harness
// itself must not initialise anything lazily inside the racing operations)
var c11Ctx = eval.NewDefaultCtx()

func c11EvalCtx() *eval.Context { return c11Ctx }

var (
	c11SharedClause = qframe.Or(
		qframe.And(qframe.Filter{Column: "i", Comparator: ">", Arg: 1}, qframe.Filter{Column: "k", Comparator: "=", Arg: 1}),
		qframe.Filter{Column: "s", Comparator: "like", Arg: "b%"},
		qframe.Not(qframe.Or(qframe.Filter{Column: "f", Comparator: "<", Arg: 0.0}, qframe.Filter{Column: "e", Comparator: "=", Arg: "hi"})),
		qframe.Filter{Column: "i", Comparator: "<", Arg: 2})
	c11SharedOrders = []qframe.Order{{Column: "e", Reverse: true, NullLast: true}, {Column: "k"}, {Column: "i", Reverse: true}}
	c11SharedInstr  = []qframe.Instruction{{Fn: 7, DstCol: "n"}, {Fn: "ToUpper", DstCol: "u", SrcCol1: "s"}, {Fn: types.ColumnName("i"), DstCol: "n2"}}
	// value lists and key lists a program keeps and hands to every call (not in sorted order)
	c11SharedIntList  = []int{5, 1, 3, 2}
	c11SharedStrList  = []string{"b", "abca", "a"}
	c11SharedKeys     = []string{"s", "z", "e", "k"}
	c11SharedInClause = qframe.Or(qframe.Filter{Column: "i", Comparator: "in", Arg: c11SharedIntList}, qframe.Filter{Column: "s", Comparator: "in", Arg: c11SharedStrList},
		qframe.Filter{Column: "f", Comparator: "in", Arg: []float64{3e40, -1}}, qframe.Filter{Column: "k", Comparator: "in", Arg: []interface{}{7, 1.0, 0}})
	c11SharedExpr = qframe.Expr("+", qframe.Expr("*", types.ColumnName("i"), 2), types.ColumnName("k"), 1)
	// (one function value made by aggregation.StrJoin used by all calls)
	c11SharedAggs = []qframe.Aggregation{{Fn: "sum", Column: "i"}, {Fn: "max", Column: "f", As: "mf"}, {Fn: "count", Column: "s", As: "n"},
		{Fn: aggregation.StrJoin("+"), Column: "s", As: "js"}, {Fn: aggregation.StrJoin("+"), Column: "e", As: "je"}}
)

// c11Prime runs the error paths once on the frame (misuse that must yield Err): whatever such a
// call leaves behind in process-wide state (pools, caches) is then present when the operations
// under test start. Results are ignored here; C10 checks them.
func c11Prime(q qframe.QFrame) {
	defer func() { _ = recover() }()
	_ = q.Filter(qframe.Filter{Column: "i", Comparator: "nosuch", Arg: 1})
	_ = q.Filter(qframe.Filter{Column: "i", Comparator: ">", Arg: "x"})
	_ = q.Filter(qframe.Filter{Column: "nocol", Comparator: ">", Arg: 1})
	_ = q.Filter(qframe.Filter{Column: "s", Comparator: "like", Arg: "(%"})
	_ = q.Filter(qframe.Filter{Column: "e", Comparator: "like", Arg: "(%"})
	_ = q.Filter(qframe.Filter{Column: "e", Comparator: "=", Arg: "undeclared"})
	_ = q.Filter(qframe.Or(qframe.Filter{Column: "i", Comparator: ">", Arg: 0}, qframe.Filter{Column: "f", Comparator: "nosuch", Arg: 1.0}))
	_ = q.Apply(qframe.Instruction{Fn: func(s *string) int { return 0 }, DstCol: "n", SrcCol1: "i"})
	_ = q.Eval("n", qframe.Expr("nosuch", types.ColumnName("i")))
	_ = q.Sort(qframe.Order{Column: "nocol"})
	_ = q.Distinct(groupby.Columns("nocol"))
	_ = q.GroupBy(groupby.Columns("nocol")).Aggregate(qframe.Aggregation{Fn: "sum", Column: "i"})
	_ = q.Slice(3, 99)
}

func c11Ops() []concOp {
	sum := func(v []int) int {
		s := 0
		for _, x := range v {
			s = s*31 + x
		}
		return s
	}
	ops := []concOp{
		{"Filter(fn int)", true, func(q qframe.QFrame, y func()) string {
			return digestFrame(q.Filter(qframe.Filter{Column: "i", Comparator: func(x int) bool { y(); return x > 1 }}))
		}},
		{"Filter(Or(fn,Not(fn str)))", true, func(q qframe.QFrame, y func()) string {
			return digestFrame(q.Filter(qframe.Or(qframe.Filter{Column: "i", Comparator: func(x int) bool { y(); return x > 2 }},
				qframe.Not(qframe.And(qframe.Filter{Column: "s", Comparator: func(s *string) bool { y(); return s != nil }})))))
		}},
		{"Filter(And(Null, fn int, fn int))", true, func(q qframe.QFrame, y func()) string {
			return digestFrame(q.Filter(qframe.And(qframe.Null(), qframe.Filter{Column: "i", Comparator: func(x int) bool { y(); return x > 1 }},
				qframe.Filter{Column: "k", Comparator: func(x int) bool { y(); return x == 1 }})))
		}},
		{"Apply(fn0)", true, func(q qframe.QFrame, y func()) string {
			return digestFrame(q.Apply(qframe.Instruction{Fn: func() int { y(); return 4 }, DstCol: "n"}))
		}},
		{"Apply(fn1 int)", true, func(q qframe.QFrame, y func()) string {
			return digestFrame(q.Apply(qframe.Instruction{Fn: func(x int) int { y(); return x * 3 }, DstCol: "i", SrcCol1: "i"}))
		}},
		{"Apply(fn1 str)", true, func(q qframe.QFrame, y func()) string {
			return digestFrame(q.Apply(qframe.Instruction{Fn: func(s *string) *string {
				y()
				if s == nil {
					return nil
				}
				r := *s + "!"
				return &r
			}, DstCol: "n", SrcCol1: "s"}))
		}},
		{"Apply(fn2)", true, func(q qframe.QFrame, y func()) string {
			return digestFrame(q.Apply(qframe.Instruction{Fn: func(a, b int) int { y(); return a*10 + b }, DstCol: "n", SrcCol1: "i", SrcCol2: "k"}))
		}},
		{"FilteredApply(fn,fn1)", true, func(q qframe.QFrame, y func()) string {
			return digestFrame(q.FilteredApply(qframe.Filter{Column: "k", Comparator: func(x int) bool { y(); return x == 1 }},
				qframe.Instruction{Fn: func(x float64) float64 { y(); return -x }, DstCol: "f", SrcCol1: "f"}))
		}},
		{"Aggregate(user int)", true, func(q qframe.QFrame, y func()) string {
			return digestUnordered(q.GroupBy(groupby.Columns("k")).Aggregate(qframe.Aggregation{Fn: func(v []int) int { y(); return sum(v) }, Column: "i"}))
		}},
		{"Aggregate(user float,str)", true, func(q qframe.QFrame, y func()) string {
			return digestUnordered(q.GroupBy(groupby.Columns("k")).Aggregate(
				qframe.Aggregation{Fn: func(v []float64) float64 {
					y()
					s := 0.0
					for _, x := range v {
						if !math.IsNaN(x) {
							s = s*2 + x
						}
					}
					return s
				}, Column: "f"},
				qframe.Aggregation{Fn: func(v []*string) *string { y(); return joinStrs(v) }, Column: "s"}))
		}},
		{"Aggregate(user int, no keys)", true, func(q qframe.QFrame, y func()) string {
			return digestUnordered(q.GroupBy().Aggregate(qframe.Aggregation{Fn: func(v []int) int { y(); return sum(v) }, Column: "i"}))
		}},
		{"Eval(user fn, own ctx)", true, func(q qframe.QFrame, y func()) string {
			ctx := eval.NewDefaultCtx()
			_ = ctx.SetFunc("tw", func(x int) int { y(); return 2 * x })
			return digestFrame(q.Eval("n", qframe.Expr("+", qframe.Expr("tw", types.ColumnName("i")), types.ColumnName("k")), eval.EvalContext(ctx)))
		}},
		{"Eval(user 2-arg fn, own ctx)", true, func(q qframe.QFrame, y func()) string {
			ctx := eval.NewDefaultCtx()
			_ = ctx.SetFunc("mix", func(a, b int) int { y(); return 3*a - b })
			_ = ctx.SetFunc("hyp", func(a, b float64) float64 { return a*a + b*b })
			return digestFrame(q.Eval("n", qframe.Expr("mix", types.ColumnName("i"), types.ColumnName("k")), eval.EvalContext(ctx)).
				Eval("m", qframe.Expr("hyp", types.ColumnName("f"), 2.0), eval.EvalContext(ctx)))
		}},
		// aggregation functions that sort / overwrite the slice they are handed (a median by in-place sort is the usual one)
		{"Aggregate(user fns that reorder their argument, no keys)", true, func(q qframe.QFrame, y func()) string {
			return digestUnordered(q.GroupBy().Aggregate(
				qframe.Aggregation{Fn: func(v []int) int {
					y()
					sort.Ints(v)
					r := v[len(v)/2]
					for i := range v {
						v[i] = -1
					}
					return r
				}, Column: "i", As: "med"},
				qframe.Aggregation{Fn: func(v []float64) float64 {
					y()
					n := float64(len(v))
					for i := range v {
						v[i] = 0
					}
					return n
				}, Column: "f", As: "fl"}))
		}},
		// callback-free operations (race pass; in the scheduler they only have start/end points)
		{"Filter(like)", false, func(q qframe.QFrame, y func()) string {
			return digestFrame(q.Filter(qframe.Filter{Column: "s", Comparator: "like", Arg: "%a%"}))
		}},
		{"Filter(ilike)", false, func(q qframe.QFrame, y func()) string {
			return digestFrame(q.Filter(qframe.Filter{Column: "s", Comparator: "ilike", Arg: "%A"}))
		}},
		{"Filter(ilike contains)", false, func(q qframe.QFrame, y func()) string {
			return digestFrame(q.Filter(qframe.Filter{Column: "s", Comparator: "ilike", Arg: "%bc%"}))
		}},
		{"Filter(ilike prefix,exact,regex)", false, func(q qframe.QFrame, y func()) string {
			return digestFrame(q.Filter(qframe.Or(qframe.Filter{Column: "s", Comparator: "ilike", Arg: "ab%"}, qframe.Filter{Column: "s", Comparator: "ilike", Arg: "B"},
				qframe.Filter{Column: "s", Comparator: "ilike", Arg: "a.x.*"}, qframe.Filter{Column: "s", Comparator: "like", Arg: "%c_"})))
		}},
		{"Filter(ilike enum)", false, func(q qframe.QFrame, y func()) string {
			return digestFrame(q.Filter(qframe.Filter{Column: "e", Comparator: "ilike", Arg: "L%"}))
		}},
		{"Filter(builtin)", false, func(q qframe.QFrame, y func()) string {
			return digestFrame(q.Filter(qframe.And(qframe.Filter{Column: "i", Comparator: ">", Arg: 0}, qframe.Or(qframe.Filter{Column: "f", Comparator: "isnull"}, qframe.Filter{Column: "e", Comparator: "=", Arg: "lo"}))))
		}},
		{"Apply(ToUpper)", false, func(q qframe.QFrame, y func()) string {
			return digestFrame(q.Apply(qframe.Instruction{Fn: "ToUpper", DstCol: "s", SrcCol1: "s"}, qframe.Instruction{Fn: "ToUpper", DstCol: "e", SrcCol1: "e"}))
		}},
		{"Apply(const,copy)", false, func(q qframe.QFrame, y func()) string {
			return digestFrame(q.Apply(qframe.Instruction{Fn: 1.5, DstCol: "f"}, qframe.Instruction{Fn: types.ColumnName("i"), DstCol: "c"}))
		}},
		{"Sort(k,e)", false, func(q qframe.QFrame, y func()) string {
			return digestFrame(q.Sort(qframe.Order{Column: "k"}, qframe.Order{Column: "i", Reverse: true}, qframe.Order{Column: "e", NullLast: true}))
		}},
		{"Sort(s)", false, func(q qframe.QFrame, y func()) string {
			return digestFrame(q.Sort(qframe.Order{Column: "s"}, qframe.Order{Column: "i"}))
		}},
		{"Distinct(k)", false, func(q qframe.QFrame, y func()) string {
			return fmt.Sprint(q.Distinct(groupby.Columns("k")).Len())
		}},
		{"Distinct(s null)", false, func(q qframe.QFrame, y func()) string {
			return fmt.Sprint(q.Distinct(groupby.Columns("s", "f")).Len(), q.Distinct(groupby.Columns("s"), groupby.Null(true)).Len())
		}},
		{"GroupBy(f,s).Aggregate(builtin)", false, func(q qframe.QFrame, y func()) string {
			return digestUnordered(q.GroupBy(groupby.Columns("k", "e")).Aggregate(qframe.Aggregation{Fn: "sum", Column: "i"}, qframe.Aggregation{Fn: "count", Column: "s", As: "c"}))
		}},
		{"GroupBy(null keys).QFrames", false, func(q qframe.QFrame, y func()) string {
			fs, _ := q.GroupBy(groupby.Columns("f")).QFrames()
			var d []string
			for _, f := range fs {
				d = append(d, digestFrame(f))
			}
			sort.Strings(d)
			return fmt.Sprint(d)
		}},
		{"Eval(default ctx)", false, func(q qframe.QFrame, y func()) string {
			return digestFrame(q.Eval("n", qframe.Expr("+", qframe.Expr("abs", types.ColumnName("i")), 2)))
		}},
		{"Eval(shared ctx)", false, func(q qframe.QFrame, y func()) string {
			return digestFrame(q.Eval("n", qframe.Expr("str", types.ColumnName("f")), eval.EvalContext(c11EvalCtx())))
		}},
		{"Select/Slice/Copy/Drop", false, func(q qframe.QFrame, y func()) string {
			return digestFrame(q.Select("s", "i", "k").Slice(1, 3).Copy("i", "k").Drop("k"))
		}},
		{"WithRowNums", false, func(q qframe.QFrame, y func()) string { return digestFrame(q.WithRowNums("rn")) }},
		{"ToCSV", false, func(q qframe.QFrame, y func()) string { var b bytes.Buffer; _ = q.ToCSV(&b); return b.String() }},
		{"ToJSON", false, func(q qframe.QFrame, y func()) string { var b bytes.Buffer; _ = q.ToJSON(&b); return b.String() }},
		{"ToCSV(Columns reversed, no header)", false, func(q qframe.QFrame, y func()) string {
			names := q.ColumnNames()
			for i, j := 0, len(names)-1; i < j; i, j = i+1, j-1 {
				names[i], names[j] = names[j], names[i]
			}
			var b bytes.Buffer
			_ = q.ToCSV(&b, qcsv.Columns(names), qcsv.Header(false))
			return b.String() + fmt.Sprint(q.ColumnNames())
		}},
		// argument values shared between the calls (clauses, orders, instructions, aggregations and
		// expressions are plain values a program builds once and uses from many goroutines)
		{"Filter(shared Or(And,leaf,Not,leaf))", false, func(q qframe.QFrame, y func()) string {
			return digestFrame(q.Filter(c11SharedClause))
		}},
		{"Filter(shared in-lists)", false, func(q qframe.QFrame, y func()) string {
			return digestFrame(q.Filter(c11SharedInClause)) + digestFrame(q.Filter(qframe.Filter{Column: "i", Comparator: "in", Arg: c11SharedIntList}))
		}},
		{"Distinct / GroupBy(shared key list)", false, func(q qframe.QFrame, y func()) string {
			d := q.Distinct(groupby.Columns(c11SharedKeys...))
			g := q.GroupBy(groupby.Columns(c11SharedKeys...)).Aggregate(qframe.Aggregation{Fn: "count", Column: "i"})
			return fmt.Sprint(d.Len(), g.Len(), g.ColumnNames())
		}},
		{"Sort(shared orders)", false, func(q qframe.QFrame, y func()) string {
			return digestFrame(q.Sort(c11SharedOrders...))
		}},
		{"Apply(shared instructions)", false, func(q qframe.QFrame, y func()) string {
			return digestFrame(q.Apply(c11SharedInstr...))
		}},
		{"Eval(shared expression)", false, func(q qframe.QFrame, y func()) string {
			return digestFrame(q.Eval("n", c11SharedExpr, eval.EvalContext(c11EvalCtx())))
		}},
		// a frame of its own with 40000 rows (sizes at which work might be split over goroutines), three aggregations
		{"Aggregate(three built-ins) on 40000 rows", false, func(q qframe.QFrame, y func()) string {
			big := c10BigFrame()
			r := big.GroupBy(groupby.Columns("k")).Aggregate(qframe.Aggregation{Fn: "sum", Column: "w"}, qframe.Aggregation{Fn: "max", Column: "v"}, qframe.Aggregation{Fn: "avg", Column: "w", As: "aw"})
			bad := big.GroupBy(groupby.Columns("k")).Aggregate(qframe.Aggregation{Fn: "avg", Column: "v"}, qframe.Aggregation{Fn: "sum", Column: "w"}, qframe.Aggregation{Fn: "max", Column: "w", As: "mw"})
			return digestUnordered(r) + fmt.Sprint(bad.Err != nil)
		}},
		{"Sort / Distinct / Filter on 40000 rows", false, func(q qframe.QFrame, y func()) string {
			big := c10BigFrame()
			s := big.Sort(qframe.Order{Column: "v"}, qframe.Order{Column: "w", Reverse: true}).Slice(0, 5)
			d := big.Distinct(groupby.Columns("k", "v"))
			f := big.Filter(qframe.Filter{Column: "v", Comparator: ">", Arg: 6})
			return digestFrame(s) + fmt.Sprint(d.Len(), f.Len())
		}},
		{"Aggregate(shared aggregations)", false, func(q qframe.QFrame, y func()) string {
			return digestUnordered(q.GroupBy(groupby.Columns("k")).Aggregate(c11SharedAggs...))
		}},
		{"Distinct / GroupBy keyed on the float column with zeros and NaNs", false, func(q qframe.QFrame, y func()) string {
			d := q.Distinct(groupby.Columns("z"), groupby.Null(true))
			fs, _ := q.GroupBy(groupby.Columns("z"), groupby.Null(true)).QFrames()
			g := q.GroupBy(groupby.Columns("z", "k")).Aggregate(qframe.Aggregation{Fn: "count", Column: "i"})
			return fmt.Sprint(d.Len(), len(fs), g.Len(), q.Distinct(groupby.Columns("f", "z")).Len())
		}},
		{"FloatView(z) bit patterns", false, func(q qframe.QFrame, y func()) string {
			v := q.MustFloatView("z")
			var bits []uint64
			for i := 0; i < v.Len(); i++ {
				bits = append(bits, math.Float64bits(v.ItemAt(i)))
			}
			return fmt.Sprintf("%x", bits)
		}},
		// calls that fail (column names that are close misspellings of existing ones): a failed call is an
		// operation on the frame like any other
		{"failing calls with misspelled column names", false, func(q qframe.QFrame, y func()) string {
			errs := []bool{
				q.Filter(qframe.Filter{Column: "ee", Comparator: "=", Arg: "lo"}).Err != nil,
				q.Filter(qframe.Filter{Column: "i", Comparator: ">", Arg: types.ColumnName("zz")}).Err != nil,
				q.Sort(qframe.Order{Column: "i"}, qframe.Order{Column: "S"}).Err != nil,
				q.Select("i", "ss").Err != nil,
				q.Distinct(groupby.Columns("k", "Z")).Err != nil,
				q.GroupBy(groupby.Columns("E")).Err != nil,
				q.GroupBy(groupby.Columns("k")).Aggregate(qframe.Aggregation{Fn: "sum", Column: "zi"}).Err != nil,
				q.Copy("n", "es").Err != nil,
				q.Apply(qframe.Instruction{Fn: "ToUpper", DstCol: "n", SrcCol1: "sz"}).Err != nil,
				q.Eval("n", qframe.Expr("abs", types.ColumnName("fz"))).Err != nil,
				q.Drop("ez").Err != nil,
			}
			return fmt.Sprint(errs, q.ColumnNames())
		}},
		{"terminal operations on shared failed frames", false, func(q qframe.QFrame, y func()) string {
			var out []string
			for _, f := range c11FailedFrames {
				var b bytes.Buffer
				e1 := f.ToCSV(&b)
				e2 := f.ToJSON(&b)
				e3 := f.ToSQL(nil)
				g := f.GroupBy(groupby.Columns("k")).Aggregate(qframe.Aggregation{Fn: "sum", Column: "i"})
				out = append(out, fmt.Sprint(e1, "|", e2, "|", e3, "|", g.Err, "|", f.Err, "|", f.Slice(0, 1).Err, "|", f.String(), b.Len()))
			}
			return strings.Join(out, "\n")
		}},
		{"String", false, func(q qframe.QFrame, y func()) string { return q.String() }},
		{"Equals", false, func(q qframe.QFrame, y func()) string {
			a, b := q.Equals(q.Sort(qframe.Order{Column: "i"}))
			return fmt.Sprint(a, b)
		}},
		{"Views", false, func(q qframe.QFrame, y func()) string {
			return digestFrame(q) + fmt.Sprint(q.MustIntView("i").Slice(), q.MustStringView("s").Len())
		}},
	}
	return ops
}

// "derived": BOTH operations run on one frame that was itself produced by adding columns
var c11Relations = []string{"same", "slice", "sorted", "copied", "derived"}

func c11Base() qframe.QFrame {
	return model.Build(model.Frame{N: 4, Cols: []model.Col{
		{Name: "i", Kind: model.Int, Cells: []model.Cell{model.I(3), model.I(1), model.I(2), model.I(5)}},
		{Name: "k", Kind: model.Int, Cells: []model.Cell{model.I(1), model.I(0), model.I(1), model.I(0)}},
		// 3e40 and -1e300: more than 32 / 256 trailing zeros in positional notation
		{Name: "f", Kind: model.Float, Cells: []model.Cell{model.F(3e40), model.NaN(), model.F(-1e300), model.NaN()}},
		{Name: "s", Kind: model.String, Cells: []model.Cell{model.S("abca"), model.Null(), model.S("aıxa"), model.S("b")}},
		{Name: "e", Kind: model.Enum, EnumVals: []string{"lo", "hi"}, Cells: []model.Cell{model.S("lo"), model.Null(), model.S("hi"), model.S("lo")}},
		// both zeros and a NaN with a payload: values a hash or comparison may want to normalise
		{Name: "z", Kind: model.Float, Cells: []model.Cell{model.F(math.Copysign(0, -1)), model.F(math.Float64frombits(0x7ff8000000000abc)), model.F(0), model.F(1.5)}},
	}})
}

func related(base qframe.QFrame, rel string) qframe.QFrame {
	switch rel {
	case "slice":
		return base.Slice(1, base.Len())
	case "sorted":
		return base.Sort(qframe.Order{Column: "k"}, qframe.Order{Column: "i"})
	case "copied", "derived":
		return base.Copy("c2", "i")
	}
	return base
}

// firstFrame is the frame the first operation runs on.
func firstFrame(base qframe.QFrame, rel string) qframe.QFrame {
	if rel == "derived" {
		return c11Derived(base)
	}
	return base
}

var c11derived map[string]qframe.QFrame

// c11Derived: one shared frame per process, derived from base by adding columns twice
func c11Derived(base qframe.QFrame) qframe.QFrame {
	// ... and sorted: the one frame both operations run on has an index that is not ascending
	return base.Copy("c2", "i").Apply(qframe.Instruction{Fn: 2.5, DstCol: "c3"}).Sort(qframe.Order{Column: "k", Reverse: true}, qframe.Order{Column: "i"})
}

// one failed frame per process (an invalid like pattern on the string column, an unknown column, a failed Apply), shared
// by all operations: a failed frame is a value like any other
var c11FailedFrames = []qframe.QFrame{
	c11Base().Filter(qframe.Filter{Column: "s", Comparator: "like", Arg: "(%"}),
	c11Base().Filter(qframe.Filter{Column: "e", Comparator: "ilike", Arg: "(%"}),
	c11Base().Sort(qframe.Order{Column: "nocol"}),
	c11Base().Apply(qframe.Instruction{Fn: func(s *string) int { return 0 }, DstCol: "n", SrcCol1: "i"}).Copy("x", "i"),
}

type concCase struct {
	Kind    string `json:"kind"` // sched | race
	Ops     []int  `json:"ops"`
	Rel     string `json:"rel"`
	Choices []int  `json:"choices,omitempty"`
	Bound   int    `json:"bound,omitempty"`
}

func noYield() {}

// runSchedCase re-executes one schedule.
func runSchedCase(c concCase) *core.Failure {
	ops := c11Ops()
	base := c11Base()
	frames := make([]qframe.QFrame, len(c.Ops))
	want := make([]string, len(c.Ops))
	twin := c11Base()
	c11Prime(c11Base())
	shared, sharedTwin := firstFrame(base, c.Rel), firstFrame(twin, c.Rel)
	for i, oi := range c.Ops {
		frames[i] = shared
		ft := sharedTwin
		if i > 0 && c.Rel != "derived" {
			frames[i] = related(base, c.Rel)
			ft = related(twin, c.Rel)
		}
		want[i] = ops[oi].run(ft, noYield) // expected result: the operation alone, on an equal frame
	}
	baseDigest := digestFrame(twin)
	got := make([]string, len(c.Ops))
	bodies := make([]func(yield func()), len(c.Ops))
	for i, oi := range c.Ops {
		i, oi := i, oi
		bodies[i] = func(yield func()) {
			yield() // operation start
			got[i] = ops[oi].run(frames[i], yield)
			yield() // operation end
		}
	}
	x, err := core.RunSchedule(bodies, c.Choices)
	if err != nil {
		return core.Failf("schedule replay: %v", err)
	}
	return checkSchedResult(c, x, ops, want, got, base, baseDigest)
}

func checkSchedResult(c concCase, x *core.Execution, ops []concOp, want, got []string, base qframe.QFrame, baseDigest string) *core.Failure {
	var names []string
	for _, oi := range c.Ops {
		names = append(names, ops[oi].name)
	}
	what := fmt.Sprintf("threads %v (relation %s) under schedule %v", names, c.Rel, x.Choices)
	if x.PanicMsg != "" {
		return core.Failf("%s: panic: %s", what, x.PanicMsg)
	}
	for i := range want {
		if got[i] != want[i] {
			return core.Failf("%s: thread %d (%s) returned a different result than when run alone\n alone:      %s\n interleaved: %s", what, i, names[i], want[i], got[i])
		}
	}
	if d := digestFrame(base); d != baseDigest {
		return core.Failf("%s: the shared frame changed\n before: %s\n after:  %s", what, baseDigest, d)
	}
	return nil
}

func c11Run(ctx *core.Ctx) {
	ops := c11Ops()
	var cb []int
	for i, o := range ops {
		if o.callback {
			cb = append(cb, i)
		}
	}
	explore := func(opIdx []int, rel string, bound int) {
		base := c11Base()
		frames := make([]qframe.QFrame, len(opIdx))
		want := make([]string, len(opIdx))
		shared := firstFrame(base, rel)
		for i, oi := range opIdx {
			frames[i] = shared
			if i > 0 && rel != "derived" {
				frames[i] = related(base, rel)
			}
			want[i] = ops[oi].run(frames[i], noYield)
		}
		baseDigest := digestFrame(base)
		var got []string
		mk := func() []func(yield func()) {
			// every execution starts cold: fresh frames (equal to the ones the expected results were
			// computed on), so that state built lazily on first use is built under the schedule
			base = c11Base()
			c11Prime(c11Base())
			shared := firstFrame(base, rel)
			for i := range opIdx {
				frames[i] = shared
				if i > 0 && rel != "derived" {
					frames[i] = related(base, rel)
				}
			}
			got = make([]string, len(opIdx))
			bodies := make([]func(yield func()), len(opIdx))
			for i, oi := range opIdx {
				i, oi := i, oi
				bodies[i] = func(yield func()) {
					yield()
					got[i] = ops[oi].run(frames[i], yield)
					yield()
				}
			}
			return bodies
		}
		c := concCase{Kind: "sched", Ops: opIdx, Rel: rel, Bound: bound}
		outcomes := map[string]bool{}
		ex, pts, err := core.Explore(mk, bound, func(x *core.Execution) bool {
			if ctx.Tick() {
				return false
			}
			if f := checkSchedResult(c, x, ops, want, got, base, baseDigest); f != nil {
				cc := c
				cc.Choices = append([]int(nil), x.Choices...)
				ctx.Report(cc, f)
				return false
			}
			outcomes[fmt.Sprint(len(x.Points))] = true
			return true
		})
		if err != nil {
			ctx.Report(c, core.Failf("scheduler error: %v", err))
		}
		ctx.Add("evaluations", ex)
		ctx.Add("states", ex)
		ctx.Add("traces", ex)
		ctx.Add("transitions", pts)
		ctx.Nontrivial(fmt.Sprintf("%v/%s/%d", opIdx, rel, bound))
		ctx.Outcome(fmt.Sprintf("sched/%dthreads", len(opIdx)))
		if ctx.WantSample() {
			var names []string
			for _, oi := range opIdx {
				names = append(names, ops[oi].name)
			}
			ctx.Sample(map[string]interface{}{"threads": names, "relation": rel, "preemption_bound": bound, "schedules": ex, "points": pts})
		}
	}
	// (a) two threads: every unordered pair (and self-pair) of callback operations, every relation, ALL interleavings
	for ai, a := range cb {
		for _, b := range cb[ai:] {
			for _, rel := range c11Relations {
				if ctx.Mine() {
					explore([]int{a, b}, rel, -1)
				}
			}
		}
	}
	// a callback operation against each callback-free operation (start/end points only on that side)
	for _, a := range cb {
		for b, o := range ops {
			if o.callback {
				continue
			}
			if ctx.Mine() {
				explore([]int{a, b}, "same", -1)
			}
		}
	}
	// three threads, preemption bound 2 (thorough: 3)
	bound := 2
	if !ctx.Quick() {
		bound = 3
	}
	tri := cb
	if ctx.Quick() && len(tri) > 6 {
		tri = []int{cb[0], cb[3], cb[5], cb[6], cb[7], cb[8]}
	}
	for ai, a := range tri {
		for bi := ai; bi < len(tri); bi++ {
			for ci := bi; ci < len(tri); ci++ {
				if ctx.Mine() {
					explore([]int{a, tri[bi], tri[ci]}, c11Relations[(ai+bi+ci)%len(c11Relations)], bound)
				}
			}
		}
	}
	// (b) free-running race pass in the -race binary: ONE PROCESS PER PAIR of operations (so that each pair
	// meets cold process-wide state), the pairs distributed over the workers
	for a := range ops {
		for b := a; b < len(ops); b++ {
			if ctx.Mine() {
				runRacePass(ctx, fmt.Sprintf("%d,%d", a, b))
			}
		}
	}
}

// ---- race pass ---------------------------------------------------------------

type raceResult struct {
	Pairs      int      `json:"pairs"`
	Runs       int      `json:"runs"`
	Mismatches []string `json:"mismatches"`
}

// RacePassMain runs inside the -race binary: every unordered pair and self-pair of
// operations x relations, released together by a barrier, free-running.
// Markers on stderr delimit the pairs so that race reports can be attributed.
func RacePassMain(tier string, only string) int {
	ops := c11Ops()
	reps := 3
	if tier == "thorough" {
		reps = 10
	}
	res := raceResult{}
	for a := range ops {
		for b := a; b < len(ops); b++ {
			pairKey := fmt.Sprintf("%d,%d", a, b)
			// relations in rotated order: process-wide state (package-level buffers, pools, caches) is
			// cold only for the first relation a process runs, and every relation gets to be first for some pairs
			for ri := range c11Relations {
				rel := c11Relations[(ri+a+b)%len(c11Relations)]
				key := pairKey + "," + rel
				if only != "" && only != key && only != pairKey {
					continue
				}
				var fa, fb qframe.QFrame
				type outcome struct{ ga, gb string }
				var got []outcome
				fmt.Fprintf(os.Stderr, "\nPAIR-BEGIN %s\n", key)
				for r := 0; r < reps; r++ {
					if r%2 == 0 {
						// cold start: fresh frames nothing has run on yet, and no sequential reference run
						// before the racing one (state built lazily on first use is then built by the two
						// racing operations); odd repetitions re-use the frames warm
						fresh := c11Base()
						c11Prime(c11Base())
						fa, fb = firstFrame(fresh, rel), related(fresh, rel)
						if rel == "derived" {
							fb = fa
						}
					}
					var ga, gb string
					start := make(chan struct{})
					var wg sync.WaitGroup
					wg.Add(2)
					go func() { defer wg.Done(); <-start; ga = ops[a].run(fa, noYield) }()
					go func() { defer wg.Done(); <-start; gb = ops[b].run(fb, noYield) }()
					close(start)
					wg.Wait()
					res.Runs++
					got = append(got, outcome{ga, gb})
				}
				fmt.Fprintf(os.Stderr, "\nPAIR-END %s\n", key)
				// the sequential reference, afterwards, on equal frames of their own
				ref := c11Base()
				ra, rb := firstFrame(ref, rel), related(ref, rel)
				if rel == "derived" {
					rb = ra
				}
				wa, wb := ops[a].run(ra, noYield), ops[b].run(rb, noYield)
				for _, g := range got {
					if g.ga != wa || g.gb != wb {
						res.Mismatches = append(res.Mismatches, fmt.Sprintf("%s (%s | %s): concurrent results differ from the sequential ones", key, ops[a].name, ops[b].name))
						break
					}
				}
				res.Pairs++
			}
		}
	}
	b, _ := json.Marshal(res)
	fmt.Println(string(b))
	return 0
}

func raceBinary() string {
	if b := os.Getenv("VERIF_RACE_BIN"); b != "" {
		return b // tools/mutant_ov.sh: a race binary built from an overlaid tree
	}
	d := os.Getenv("VERIF_DIR")
	if d == "" {
		d = "/verif"
	}
	return filepath.Join(d, "bin", "qfmc-race")
}

// runRaceBinary runs the race pass (all pairs, or one) and returns the pairs with race reports.
func runRaceBinary(tier, only string) (raceResult, map[string]string, error) {
	cmd := exec.Command(raceBinary(), "racepass", tier, only)
	cmd.Env = append(os.Environ(), "GORACE=halt_on_error=0", "GOMAXPROCS=8")
	var out, errb bytes.Buffer
	cmd.Stdout = &out
	cmd.Stderr = &errb
	if err := cmd.Run(); err != nil {
		// exit code 66 is the race detector's "races were found"
		if ee, ok := err.(*exec.ExitError); !ok || ee.ExitCode() != 66 {
			return raceResult{}, nil, fmt.Errorf("race binary: %v: %s", err, tailStr(errb.String(), 600))
		}
	}
	var res raceResult
	lines := strings.Split(strings.TrimSpace(out.String()), "\n")
	if err := json.Unmarshal([]byte(lines[len(lines)-1]), &res); err != nil {
		return res, nil, fmt.Errorf("race binary output: %v: %q", err, out.String())
	}
	races := map[string]string{}
	cur := ""
	var buf []string
	for _, l := range strings.Split(errb.String(), "\n") {
		switch {
		case strings.HasPrefix(l, "PAIR-BEGIN "):
			cur = strings.TrimPrefix(l, "PAIR-BEGIN ")
			buf = nil
		case strings.HasPrefix(l, "PAIR-END "):
			if strings.Contains(strings.Join(buf, "\n"), "DATA RACE") {
				races[cur] = strings.Join(buf, "\n")
			}
			cur = ""
		default:
			if cur != "" {
				buf = append(buf, l)
			}
		}
	}
	return res, races, nil
}

func headStr(s string, n int) string {
	if len(s) > n {
		return s[:n]
	}
	return s
}

func tailStr(s string, n int) string {
	if len(s) > n {
		return s[len(s)-n:]
	}
	return s
}

func runRacePass(ctx *core.Ctx, pair string) {
	res, races, err := runRaceBinary(ctx.Tier, pair)
	if err != nil {
		ctx.Report(concCase{Kind: "race"}, core.Failf("race pass could not be run for pair %s: %v", pair, err))
		return
	}
	ctx.Add("race_pairs", int64(res.Pairs))
	ctx.Add("race_runs", int64(res.Runs))
	ctx.Add("race_reports", int64(len(races)))
	ctx.Add("evaluations", int64(res.Runs))
	ctx.Add("traces", int64(res.Runs))
	ctx.Outcome("race/pairs-run")
	for _, m := range res.Mismatches {
		parts := strings.SplitN(m, " ", 2)
		ctx.Report(raceDesc(parts[0]), core.Failf("free-running pass: %s", m))
	}
	for key, rep := range races {
		// a reported pair is re-run alone before it is believed
		confirmed := 0
		for i := 0; i < 5; i++ {
			// the whole pair again in a fresh process (the relation may need to meet cold process-wide state)
			if _, r2, err := runRaceBinary(ctx.Tier, pair); err == nil && len(r2[key]) > 0 {
				confirmed++
			}
		}
		if confirmed == 0 {
			ctx.Note("race report for pair " + key + " did not reproduce in 5 isolated runs; not reported")
			continue
		}
		ctx.Report(raceDesc(key), core.Failf("data race between concurrent operations (pair %s, reproduced %d/5 alone):\n%s", key, confirmed, headStr(strings.TrimSpace(rep), 1800)))
	}
}

func raceDesc(key string) concCase {
	var a, b int
	var rel string
	p := strings.Split(key, ",")
	if len(p) == 3 {
		fmt.Sscan(p[0], &a)
		fmt.Sscan(p[1], &b)
		rel = p[2]
	}
	return concCase{Kind: "race", Ops: []int{a, b}, Rel: rel}
}

func runConcCase(c concCase) *core.Failure {
	if c.Kind == "race" {
		if len(c.Ops) != 2 {
			return core.Failf("race pass failed to run")
		}
		key := fmt.Sprintf("%d,%d,%s", c.Ops[0], c.Ops[1], c.Rel)
		pair := fmt.Sprintf("%d,%d", c.Ops[0], c.Ops[1])
		for i := 0; i < 5; i++ {
			res, races, err := runRaceBinary("quick", pair)
			if err != nil {
				return core.Failf("race binary: %v", err)
			}
			if len(races[key]) > 0 {
				return core.Failf("data race reproduced for pair %s:\n%s", key, tailStr(races[key], 1500))
			}
			if len(res.Mismatches) > 0 {
				return core.Failf("%v", res.Mismatches)
			}
		}
		return nil
	}
	return runSchedCase(c)
}

func init() {
	core.Register(&core.Check{
		ID: "C11",
		Setup: func() {
			b := c11Base()
			for _, r := range c11Relations {
				related(b, r)
			}
			for _, o := range c11Ops() {
				o.run(b, noYield)
			}
		},
		Level: "model_checking",
		Rule: "(a) controlled cooperative scheduler: logical threads each run one operation on the same frame or on a frame sharing storage with it (slice, sorted copy, column copy); scheduling points are operation start, operation end and EVERY user callback invocation (filter predicate, apply fn0/fn1/fn2, aggregation function, eval function; the callback yields before it reads its arguments). " +
			"All interleavings (no preemption bound) for every unordered pair and self-pair of 14 callback-bearing operations x 5 sharing relations (same frame, slice, sorted copy, column copy, both on one frame that was itself derived by adding columns) and for each callback operation against each of 31 callback-free operations; three threads with preemption bound 2 (thorough 3). Oracle: every operation returns what it returns alone, the shared frame is unchanged, no panic; replay of a choice prefix must find the recorded number of enabled threads. states = schedules executed, transitions = scheduling points. " +
			"(b) free-running pass in a -race build: every unordered pair and self-pair of all 45 operations (five of them using argument values shared between the calls, two on a shared 40000-row frame) x 5 relations released together by a barrier, one fresh process per pair (relations in rotated order, no sequential run before the racing one: process-wide and per-frame lazily built state is cold), 3 (10) repetitions, results compared with the sequential ones computed afterwards on equal frames; a race report is attributed by stderr markers and re-run 5 times in fresh processes before it is believed. Non-trivial = distinct (operation tuple, relation) explored by the scheduler.",
		Assumptions: []string{
			"qframe contains no synchronisation operation, so the scheduler can only regain control at operation boundaries and user callbacks; memory-access-level interleavings are covered by the race pass: two synchronisation-free operations forked from a barrier have no happens-before path between them in any schedule, so the Go race detector reports a conflicting access pair whichever schedule runs (limits: shadow memory keeps 4 accesses per word)",
			"a data-race-free program is sequentially consistent (Go memory model); with no operation writing memory another reads, each returns its sequential result",
		},
		Bound: map[string]string{
			"quick":    "2 threads: all interleavings; 3 threads: preemption bound 2 over 6 operations; race pass 3 repetitions",
			"thorough": "3 threads: preemption bound 3 over all 11 callback operations; race pass 10 repetitions",
		},
		Run:    c11Run,
		Replay: replayAs(runConcCase),
	})
}
