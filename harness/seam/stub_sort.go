//go:build verif

package verifseam

const SortAvailable = false

func SortFull(ix []uint32, cmp []Comparable)                        { panic("sort seam unavailable") }
func SortQuickDepth(ix []uint32, cmp []Comparable, a, b, depth int) { panic("sort seam unavailable") }
func SortHeap(ix []uint32, cmp []Comparable, a, b int)              { panic("sort seam unavailable") }
func SortMaxDepth(n int) int                                        { return 0 }
