package model

import (
	"fmt"
	"math"
	"regexp"
	"strings"

	"github.com/tobgu/qframe"
	"github.com/tobgu/qframe/types"
)

// Clause is the data form of a filter clause tree.
type Clause struct {
	Op   string   `json:"op"` // leaf | and | or | not | null
	Subs []Clause `json:"subs,omitempty"`
	Leaf *Leaf    `json:"leaf,omitempty"`
}

// Leaf is one comparison. Exactly one argument representation is used,
// selected by ArgKind.
type Leaf struct {
	Col     string `json:"col"`
	Cmp     string `json:"cmp"`      // built-in name, or "fn:<name>" from the predicate registry
	ArgKind string `json:"arg_kind"` // none int float bool string ints floats strings iface col
	I       int    `json:"i,omitempty"`
	FB      uint64 `json:"fb,omitempty"` // float constant as bits
	B       bool   `json:"b,omitempty"`
	S       string `json:"s,omitempty"`
	// List holds the elements of a value list; for "iface" each element is
	// tagged by the field that is set via Tag ("i","f","s").
	List    []Cell   `json:"list,omitempty"`
	Tags    []string `json:"tags,omitempty"`
	ArgCol  string   `json:"arg_col,omitempty"`
	Inverse bool     `json:"inverse,omitempty"`
}

func (l Leaf) F() float64 { return math.Float64frombits(l.FB) }

func LeafC(l Leaf) Clause    { return Clause{Op: "leaf", Leaf: &l} }
func And(s ...Clause) Clause { return Clause{Op: "and", Subs: s} }
func Or(s ...Clause) Clause  { return Clause{Op: "or", Subs: s} }
func Not(s Clause) Clause    { return Clause{Op: "not", Subs: []Clause{s}} }
func NullClause() Clause     { return Clause{Op: "null"} }
func (c Clause) String() string {
	switch c.Op {
	case "leaf":
		l := c.Leaf
		arg := ""
		switch l.ArgKind {
		case "none":
			arg = "-"
		case "int":
			arg = fmt.Sprint(l.I)
		case "float":
			arg = fmt.Sprintf("%vf", l.F())
		case "bool":
			arg = fmt.Sprint(l.B)
		case "string":
			arg = fmt.Sprintf("%q", l.S)
		case "col":
			arg = "col:" + l.ArgCol
		default:
			var parts []string
			for i, x := range l.List {
				tag := ""
				if i < len(l.Tags) {
					tag = l.Tags[i]
				}
				switch {
				case l.ArgKind == "ints" || tag == "i":
					parts = append(parts, fmt.Sprint(x.I))
				case l.ArgKind == "floats" || tag == "f":
					parts = append(parts, fmt.Sprintf("%vf", math.Float64frombits(x.FB)))
				default:
					parts = append(parts, fmt.Sprintf("%q", x.S))
				}
			}
			arg = l.ArgKind + "[" + strings.Join(parts, ",") + "]"
		}
		inv := ""
		if l.Inverse {
			inv = "~"
		}
		return fmt.Sprintf("%s(%s %s %s)", inv, l.Col, l.Cmp, arg)
	case "null":
		return "Null()"
	case "not":
		return "Not(" + c.Subs[0].String() + ")"
	}
	parts := make([]string, len(c.Subs))
	for i, s := range c.Subs {
		parts[i] = s.String()
	}
	return strings.Title(c.Op) + "(" + strings.Join(parts, ", ") + ")"
}

// ---------------------------------------------------------------------------
// predicate registry (user functions referenced by name in descriptors)

var (
	IntPred1 = map[string]func(int) bool{
		"odd": func(x int) bool { return x%2 != 0 },
		"gt1": func(x int) bool { return x > 1 },
		// two closures made by ONE function literal (same code, other captured value)
		"eq-1": intEq(1),
		"eq-2": intEq(2),
	}
	IntPred2 = map[string]func(int, int) bool{
		"lt": func(x, y int) bool { return x < y },
	}
	FloatPred1 = map[string]func(float64) bool{
		"gt1_5": func(x float64) bool { return x > 1.5 },
		"nan":   func(x float64) bool { return math.IsNaN(x) },
	}
	FloatPred2 = map[string]func(float64, float64) bool{
		"lt": func(x, y float64) bool { return x < y },
	}
	BoolPred1 = map[string]func(bool) bool{
		"id": func(x bool) bool { return x },
	}
	BoolPred2 = map[string]func(bool, bool) bool{
		"xor": func(x, y bool) bool { return x != y },
	}
	StrPred1 = map[string]func(*string) bool{
		"nil":      func(x *string) bool { return x == nil },
		"nonempty": func(x *string) bool { return x != nil && len(*x) > 0 },
		"eq-a":     strEq("a"),
		"eq-b":     strEq("b"),
	}
	StrPred2 = map[string]func(*string, *string) bool{
		"samenil": func(x, y *string) bool { return (x == nil) == (y == nil) },
		"lt":      func(x, y *string) bool { return x != nil && y != nil && *x < *y },
	}
)

func intEq(v int) func(int) bool { return func(x int) bool { return x == v } }

func strEq(v string) func(*string) bool {
	return func(x *string) bool { return x != nil && *x == v }
}

// Counter, when non-nil, is incremented by every registry predicate call made
// through the wrappers below (used by C10/C11).
type CallCounter struct{ N int }

// ---------------------------------------------------------------------------
// building the real clause

func leafArg(l Leaf) interface{} {
	switch l.ArgKind {
	case "none":
		return nil
	case "int":
		return l.I
	case "float":
		return l.F()
	case "bool":
		return l.B
	case "string":
		return l.S
	case "ints":
		r := make([]int, len(l.List))
		for i, x := range l.List {
			r[i] = x.I
		}
		return r
	case "floats":
		r := make([]float64, len(l.List))
		for i, x := range l.List {
			r[i] = math.Float64frombits(x.FB)
		}
		return r
	case "strings":
		r := make([]string, len(l.List))
		for i, x := range l.List {
			r[i] = x.S
		}
		return r
	case "iface":
		r := make([]interface{}, len(l.List))
		for i, x := range l.List {
			switch l.Tags[i] {
			case "i":
				r[i] = x.I
			case "f":
				r[i] = math.Float64frombits(x.FB)
			default:
				r[i] = x.S
			}
		}
		return r
	case "col":
		return types.ColumnName(l.ArgCol)
	}
	panic("bad arg kind " + l.ArgKind)
}

func leafComparator(l Leaf, colKind Kind) interface{} {
	if !strings.HasPrefix(l.Cmp, "fn:") {
		return l.Cmp
	}
	name := l.Cmp[3:]
	two := l.ArgKind == "col"
	switch colKind {
	case Int:
		if two {
			return IntPred2[name]
		}
		return IntPred1[name]
	case Float:
		if two {
			return FloatPred2[name]
		}
		return FloatPred1[name]
	case Bool:
		if two {
			return BoolPred2[name]
		}
		return BoolPred1[name]
	default:
		if two {
			return StrPred2[name]
		}
		return StrPred1[name]
	}
}

// BuildClause turns the data form into the real clause objects. kinds maps
// column names to kinds (needed to pick the predicate's Go type).
func BuildClause(c Clause, kinds map[string]Kind) qframe.FilterClause {
	switch c.Op {
	case "leaf":
		l := *c.Leaf
		return qframe.Filter{Column: l.Col, Comparator: leafComparator(l, kinds[l.Col]), Arg: leafArg(l), Inverse: l.Inverse}
	case "null":
		return qframe.Null()
	case "not":
		return qframe.Not(BuildClause(c.Subs[0], kinds))
	}
	subs := make([]qframe.FilterClause, len(c.Subs))
	for i, s := range c.Subs {
		subs[i] = BuildClause(s, kinds)
	}
	if c.Op == "and" {
		return qframe.And(subs...)
	}
	return qframe.Or(subs...)
}

func (f Frame) Kinds() map[string]Kind {
	m := map[string]Kind{}
	for _, c := range f.Cols {
		m[c.Name] = c.Kind
	}
	return m
}

// ---------------------------------------------------------------------------
// reference semantics (row-wise)

// Defects are switches that reproduce, one each, a recorded wrong behaviour of
// the implementation. They are only used to attribute a discrepancy to a known
// finding; the plain model has none set.
type Defects struct {
	// InverseOrderedDropsNull: Filter.Inverse / Not(leaf) on <,<=,>,>= is
	// evaluated as the opposite comparator, which is false for null/NaN.
	InverseOrderedDropsNull bool
	// FilteredApply assigns constants / copied columns / the built-in enum
	// ToUpper to all rows instead of the rows matching the clause only.
	FilteredApplyConstAllRows     bool
	FilteredApplyCopyAllRows      bool
	FilteredApplyEnumUpperAllRows bool
}

type Evaluator struct {
	F Frame
	D Defects
}

func isNull(k Kind, c Cell) bool {
	switch k {
	case Float:
		return math.IsNaN(c.F)
	case String, Enum:
		return c.Null
	}
	return false
}

// cmp3 compares two non-null cells of the same column kind.
func cmp3(col Col, x, y Cell) int {
	switch col.Kind {
	case Int:
		return c3(x.I < y.I, x.I > y.I)
	case Float:
		return c3(x.F < y.F, x.F > y.F)
	case Bool:
		return c3(!x.B && y.B, x.B && !y.B)
	case String:
		return strings.Compare(x.S, y.S)
	case Enum:
		if col.EnumVals != nil {
			return c3(rank(col, x.S) < rank(col, y.S), rank(col, x.S) > rank(col, y.S))
		}
		return strings.Compare(x.S, y.S)
	}
	return 0
}

func c3(lt, gt bool) int {
	if lt {
		return -1
	}
	if gt {
		return 1
	}
	return 0
}

func rank(col Col, s string) int {
	for i, v := range col.EnumVals {
		if v == s {
			return i
		}
	}
	return -1
}

func relop(op string, c int) bool {
	switch op {
	case "<":
		return c < 0
	case "<=":
		return c <= 0
	case ">":
		return c > 0
	case ">=":
		return c >= 0
	case "=":
		return c == 0
	case "!=":
		return c != 0
	}
	panic("relop " + op)
}

func isRel(op string) bool {
	switch op {
	case "<", "<=", ">", ">=", "=", "!=":
		return true
	}
	return false
}

// LikeMatch is the reference for like/ilike on a non-null cell.
func LikeMatch(pattern, cell string, caseSensitive bool) (bool, error) {
	fuzzyStart := strings.HasPrefix(pattern, "%")
	fuzzyEnd := strings.HasSuffix(pattern, "%")
	if regexp.QuoteMeta(pattern) != pattern {
		p := pattern
		if fuzzyStart {
			p = p[1:]
		} else {
			p = "^" + p
		}
		if fuzzyEnd {
			p = p[:len(p)-1]
		} else {
			p = p + "$"
		}
		if !caseSensitive {
			p = "(?i)" + p
		}
		re, err := regexp.Compile(p)
		if err != nil {
			return false, err
		}
		return re.MatchString(cell), nil
	}
	lit := strings.TrimSuffix(strings.TrimPrefix(pattern, "%"), "%")
	if !caseSensitive {
		lit = strings.ToUpper(lit)
		cell = strings.ToUpper(cell)
	}
	switch {
	case fuzzyStart && fuzzyEnd:
		return strings.Contains(cell, lit), nil
	case fuzzyStart:
		return strings.HasSuffix(cell, lit), nil
	case fuzzyEnd:
		return strings.HasPrefix(cell, lit), nil
	}
	return cell == lit, nil
}

// constCell converts the leaf's scalar constant into a cell of the column's kind.
func constCell(col Col, l Leaf) (Cell, error) {
	switch col.Kind {
	case Int:
		switch l.ArgKind {
		case "int":
			return I(l.I), nil
		case "float":
			return I(int(l.F())), nil
		}
	case Float:
		if l.ArgKind == "float" {
			if math.IsNaN(l.F()) {
				return Cell{}, fmt.Errorf("NaN constant")
			}
			return F(l.F()), nil
		}
	case Bool:
		if l.ArgKind == "bool" {
			return B(l.B), nil
		}
	case String, Enum:
		if l.ArgKind == "string" {
			return S(l.S), nil
		}
	}
	return Cell{}, fmt.Errorf("constant of kind %s not valid for %s column", l.ArgKind, col.Kind)
}

// LeafRow evaluates the un-inverted leaf on one row.
func (e Evaluator) leafRow(l Leaf, col Col, r int) (bool, error) {
	x := col.Cells[r]
	xn := isNull(col.Kind, x)
	if strings.HasPrefix(l.Cmp, "fn:") {
		name := l.Cmp[3:]
		if l.ArgKind == "col" {
			ac, _, ok := e.F.Col(l.ArgCol)
			if !ok || ac.Kind != col.Kind {
				return false, fmt.Errorf("bad argument column")
			}
			y := ac.Cells[r]
			switch col.Kind {
			case Int:
				return IntPred2[name](x.I, y.I), nil
			case Float:
				return FloatPred2[name](x.F, y.F), nil
			case Bool:
				return BoolPred2[name](x.B, y.B), nil
			default:
				return StrPred2[name](sp(x), sp(y)), nil
			}
		}
		switch col.Kind {
		case Int:
			return IntPred1[name](x.I), nil
		case Float:
			return FloatPred1[name](x.F), nil
		case Bool:
			return BoolPred1[name](x.B), nil
		default:
			return StrPred1[name](sp(x)), nil
		}
	}
	switch l.Cmp {
	case "isnull":
		return xn, nil
	case "isnotnull":
		return !xn, nil
	}
	switch l.ArgKind {
	case "col":
		ac, _, ok := e.F.Col(l.ArgCol)
		if !ok {
			return false, fmt.Errorf("unknown argument column")
		}
		if !isRel(l.Cmp) {
			return false, fmt.Errorf("comparator %s not valid with a column argument", l.Cmp)
		}
		y := ac.Cells[r]
		yn := isNull(ac.Kind, y)
		cc := col
		// int <-> float promotion
		if col.Kind == Int && ac.Kind == Float {
			cc = Col{Kind: Float}
			x = F(float64(x.I))
		} else if col.Kind == Float && ac.Kind == Int {
			y = F(float64(y.I))
		} else if col.Kind != ac.Kind {
			return false, fmt.Errorf("column kinds differ")
		}
		if xn || yn {
			return l.Cmp == "!=", nil
		}
		return relop(l.Cmp, cmp3(cc, x, y)), nil
	case "ints", "floats", "strings", "iface":
		if l.Cmp != "in" {
			return false, fmt.Errorf("comparator %s not valid with a list", l.Cmp)
		}
		if xn {
			return false, nil
		}
		for i, v := range l.List {
			switch col.Kind {
			case Int:
				iv := v.I
				if l.ArgKind == "floats" || (l.ArgKind == "iface" && l.Tags[i] == "f") {
					iv = int(math.Float64frombits(v.FB))
				}
				if x.I == iv {
					return true, nil
				}
			case String, Enum:
				if x.S == v.S {
					return true, nil
				}
			default:
				return false, fmt.Errorf("in not valid for %s", col.Kind)
			}
		}
		return false, nil
	}
	// scalar constant
	switch l.Cmp {
	case "like", "ilike":
		if col.Kind != String && col.Kind != Enum || l.ArgKind != "string" {
			return false, fmt.Errorf("like on non-string")
		}
		if xn {
			// the pattern must still compile
			_, err := LikeMatch(l.S, "", l.Cmp == "like")
			return false, err
		}
		return LikeMatch(l.S, x.S, l.Cmp == "like")
	case "any_bits", "all_bits":
		if col.Kind != Int || l.ArgKind != "int" {
			return false, fmt.Errorf("bits on non-int")
		}
		if l.Cmp == "any_bits" {
			return x.I&l.I > 0, nil
		}
		return x.I&l.I == l.I, nil
	}
	if !isRel(l.Cmp) {
		return false, fmt.Errorf("unknown comparator %q", l.Cmp)
	}
	if col.Kind == Bool && l.Cmp != "=" && l.Cmp != "!=" {
		return false, fmt.Errorf("ordering comparator on bool")
	}
	k, err := constCell(col, l)
	if err != nil {
		return false, err
	}
	if xn {
		return l.Cmp == "!=", nil
	}
	if col.Kind == Enum {
		// constant must be a declared/known value to have a rank
		if col.EnumVals != nil && rank(col, k.S) < 0 {
			return false, fmt.Errorf("undeclared enum constant")
		}
	}
	return relop(l.Cmp, cmp3(col, x, k)), nil
}

func sp(c Cell) *string {
	if c.Null {
		return nil
	}
	s := c.S
	return &s
}

var inverseOrdered = map[string]string{"<": ">=", "<=": ">", ">": "<=", ">=": "<"}

// Row evaluates the clause on row r.
func (e Evaluator) Row(c Clause, r int) (bool, error) {
	switch c.Op {
	case "null":
		return true, nil
	case "leaf":
		return e.leaf(*c.Leaf, r)
	case "not":
		s := c.Subs[0]
		if s.Op == "leaf" && e.D.InverseOrderedDropsNull {
			l := *s.Leaf
			l.Inverse = !l.Inverse
			return e.leaf(l, r)
		}
		v, err := e.Row(s, r)
		return !v, err
	case "and":
		if len(c.Subs) == 0 {
			return false, fmt.Errorf("empty and")
		}
		res := true
		for _, s := range c.Subs {
			v, err := e.Row(s, r)
			if err != nil {
				return false, err
			}
			res = res && v
		}
		return res, nil
	case "or":
		if len(c.Subs) == 0 {
			return false, fmt.Errorf("empty or")
		}
		res := false
		for _, s := range c.Subs {
			v, err := e.Row(s, r)
			if err != nil {
				return false, err
			}
			res = res || v
		}
		return res, nil
	}
	return false, fmt.Errorf("bad op %q", c.Op)
}

func (e Evaluator) leaf(l Leaf, r int) (bool, error) {
	col, _, ok := e.F.Col(l.Col)
	if !ok {
		return false, fmt.Errorf("unknown column %q", l.Col)
	}
	if l.Inverse && e.D.InverseOrderedDropsNull {
		if inv, ok := inverseOrdered[l.Cmp]; ok && l.ArgKind != "none" {
			l2 := l
			l2.Cmp = inv
			l2.Inverse = false
			return e.leafRow(l2, col, r)
		}
	}
	v, err := e.leafRow(l, col, r)
	if err != nil {
		return false, err
	}
	if l.Inverse {
		return !v, nil
	}
	return v, nil
}

// Validate evaluates the clause on a virtual frame to find static errors even
// when the frame has no rows: every leaf is checked against one row if any.
func (e Evaluator) Filter(c Clause) (rows []int, err error) {
	if err := e.static(c); err != nil {
		return nil, err
	}
	for r := 0; r < e.F.N; r++ {
		v, err := e.Row(c, r)
		if err != nil {
			return nil, err
		}
		if v {
			rows = append(rows, r)
		}
	}
	return rows, nil
}

// static reports structural errors that do not depend on a row.
func (e Evaluator) static(c Clause) error {
	switch c.Op {
	case "null":
		return nil
	case "leaf":
		col, _, ok := e.F.Col(c.Leaf.Col)
		if !ok {
			return fmt.Errorf("unknown column")
		}
		// an undeclared constant against a declared enum is an error whatever the rows hold
		if l := c.Leaf; col.Kind == Enum && col.EnumVals != nil && l.ArgKind == "string" && isRel(l.Cmp) && rank(col, l.S) < 0 {
			return fmt.Errorf("undeclared enum constant")
		}
		return nil
	case "not":
		return e.static(c.Subs[0])
	}
	if len(c.Subs) == 0 {
		return fmt.Errorf("empty %s", c.Op)
	}
	for _, s := range c.Subs {
		if err := e.static(s); err != nil {
			return err
		}
	}
	return nil
}
