package checks

import (
	"fmt"
	"math"
	"strings"

	"github.com/tobgu/qframe"
	"github.com/tobgu/qframe/config/groupby"

	"verif/harness/core"
	"verif/harness/model"
)

// C06 — Apply computes each destination cell from the same row and changes nothing else.

type applyCase struct {
	Variant  int           `json:"variant"`
	Instrs   []model.Instr `json:"instrs"`
	Filtered *model.Clause `json:"filtered,omitempty"`
	RowNums  string        `json:"row_nums,omitempty"`
	// Battery: the returned frame (no instructions: the variant itself) additionally goes through the latent-state
	// battery (battery.go): follow-up operations on it and on frames derived from it
	Battery bool `json:"battery,omitempty"`
}

var c06VariantNames = append(append([]string{}, model.ShapeNames...), "aggregated", "selected", "copied", "zero-rows", "one-row", "one-row-of-a-sorted-frame", "70-rows", "70-rows-sparseperm", "runes-outside-the-basic-plane", "40-rows-two-odd-rows", "sorted-by-i", "sorted-by-s-desc", "sorted-by-e", "enum-values-differing-in-case-only")

func c06Base() model.Frame {
	N := model.Null()
	return model.Frame{N: 4, Cols: []model.Col{
		{Name: "i", Kind: model.Int, Cells: []model.Cell{model.I(3), model.I(0), model.I(-2), model.I(7)}},
		{Name: "f", Kind: model.Float, Cells: []model.Cell{model.F(1.5), model.NaN(), model.F(0), model.F(-2)}},
		{Name: "b", Kind: model.Bool, Cells: []model.Cell{model.B(true), model.B(false), model.B(false), model.B(true)}},
		// "ı" upper-cases to a shorter, "ɐ" to a longer UTF-8 sequence
		{Name: "s", Kind: model.String, Cells: []model.Cell{model.S("aıb"), N, model.S(""), model.S("ɐx")}},
		// "lo" and "Lo" become one value under ToUpper, with other values declared after them
		{Name: "e", Kind: model.Enum, EnumVals: []string{"lo", "LO", "Lo", "hi", "ɐ"}, Cells: []model.Cell{model.S("hi"), model.S("Lo"), N, model.S("ɐ")}},
	}}
}

type c06Variant struct {
	qf qframe.QFrame
	in model.Frame
}

var c06vars []c06Variant

func c06Variants() []c06Variant {
	if c06vars != nil {
		return c06vars
	}
	base := c06Base()
	add := func(q qframe.QFrame) {
		o := model.Observe(q)
		o.AdoptMeta(base)
		c06vars = append(c06vars, c06Variant{q, o})
	}
	for s := 0; s < model.NShapes; s++ {
		q := model.BuildShape(base, s)
		o := model.ObserveAs(q, base)
		o.AdoptMeta(base)
		c06vars = append(c06vars, c06Variant{q, o})
	}
	q := model.Build(base)
	first := func(v []*string) *string { return v[0] }
	add(q.GroupBy(groupby.Columns("e")).Aggregate(
		qframe.Aggregation{Fn: "sum", Column: "i"},
		qframe.Aggregation{Fn: "sum", Column: "f"},
		qframe.Aggregation{Fn: "majority", Column: "b"},
		qframe.Aggregation{Fn: first, Column: "s"},
		// a count column under a name the instructions write to
		qframe.Aggregation{Fn: "count", Column: "s", As: "n1"}))
	add(q.Select("e", "s", "i", "f", "b"))
	add(q.Copy("i2", "i").Copy("s", "s"))
	add(model.Build(base.Rows(nil)))
	add(model.Build(base.Rows([]int{1})))
	add(q.Sort(qframe.Order{Column: "i"}).Slice(3, 4))
	// 70 rows (the base rows in a mixed order, repeated): beyond any blocked or unrolled loop
	big := base.Rows(c07BigRows())
	add(model.Build(big))
	add(model.BuildShape(big, model.ShapeSparsePerm))
	// the string column holds basic-plane runes followed by runes outside the basic plane with the same low 16 bits
	uni := base.Clone()
	for ci := range uni.Cols {
		if uni.Cols[ci].Name == "s" {
			uni.Cols[ci].Cells = []model.Cell{model.S("\u0448\u0449\u044f"), model.Null(), model.S("\U00010428\U00010429"), model.S("x\U0001044Fy")}
		}
	}
	add(model.Build(uni))
	// 40 rows, all but two of them alike: the FilteredApply clauses match (or miss) only one or two rows of many
	odd := make([]int, 40)
	for r := range odd {
		odd[r] = []int{0, 3}[r%2]
	}
	odd[17], odd[30] = 2, 1
	add(model.Build(base.Rows(odd)))
	// frames that were sorted by the column an instruction is going to overwrite
	add(q.Sort(qframe.Order{Column: "i"}))
	add(q.Sort(qframe.Order{Column: "s", Reverse: true}))
	add(q.Sort(qframe.Order{Column: "e"}, qframe.Order{Column: "i"}))
	// enum and string values that differ in case only and ALL change under ToUpper
	cv := base.Clone()
	for ci := range cv.Cols {
		switch cv.Cols[ci].Name {
		case "e":
			cv.Cols[ci].EnumVals = []string{"ab", "aB", "cd", "Ab"}
			cv.Cols[ci].Cells = []model.Cell{model.S("Ab"), model.S("ab"), model.S("aB"), model.S("cd")}
		case "s":
			cv.Cols[ci].Cells = []model.Cell{model.S("aB"), model.S("Ab"), model.Null(), model.S("ab")}
		}
	}
	{
		cq := model.Build(cv)
		co := model.Observe(cq)
		co.AdoptMeta(cv)
		c06vars = append(c06vars, c06Variant{cq, co})
	}
	return c06vars
}

func c06Alphabet(small bool) []model.Instr {
	var out []model.Instr
	consts := []model.Instr{
		{Fn: "const:int", I: 7},
		{Fn: "const:float", FB: math.Float64bits(2.5)},
		{Fn: "const:bool", B: true},
		{Fn: "const:string", S: "x"},
		{Fn: "const:nilstring"},
		{Fn: "const:strptr", S: "p"},
		// the empty string is a value, not null
		// a negative zero is a value of its own
		{Fn: "const:float", FB: math.Float64bits(math.Copysign(0, -1))},
		{Fn: "const:string", S: ""},
		{Fn: "const:strptr", S: ""},
	}
	for _, c := range consts {
		for _, dst := range []string{"i", "s", "n1"} {
			if small && dst == "s" {
				continue
			}
			c.Dst = dst
			out = append(out, c)
		}
	}
	for _, src := range []string{"i", "s", "e", "n1"} {
		for _, dst := range []string{"i", "n1", "n2"} {
			if small && (dst == "n2" || src == "s") {
				continue
			}
			out = append(out, model.Instr{Fn: "copy", Col: src, Dst: dst})
		}
	}
	for _, k := range []string{"int", "float", "bool", "string"} {
		for _, dst := range []string{"n1", "i"} {
			if small && dst == "i" {
				continue
			}
			out = append(out, model.Instr{Fn: "fn0:" + k, Dst: dst})
		}
	}
	for _, src := range []string{"i", "f", "b", "s", "e", "n1"} {
		for _, fn := range []string{"toint", "tofloat", "tobool", "tostr"} {
			for _, dst := range []string{"n1", src, "s"} {
				if small && (dst == "s" || (fn != "tostr" && fn != "toint")) {
					continue
				}
				out = append(out, model.Instr{Fn: "fn1:" + fn, Src1: src, Dst: dst})
			}
		}
	}
	for _, src := range []string{"s", "e"} {
		out = append(out, model.Instr{Fn: "fn1:same", Src1: src, Dst: "n1"})
		out = append(out, model.Instr{Fn: "fn1:fill", Src1: src, Dst: "n1"}, model.Instr{Fn: "fn1:fill", Src1: src, Dst: src})
		out = append(out, model.Instr{Fn: "fn2:pass", Src1: src, Src2: src, Dst: "n2"})
	}
	out = append(out, model.Instr{Fn: "fn2:pass", Src1: "s", Src2: "n1", Dst: "n2"}, model.Instr{Fn: "fn2:pass", Src1: "n1", Src2: "s", Dst: "s"})
	for _, pair := range [][2]string{{"i", "i"}, {"i", "n1"}, {"n1", "i"}, {"f", "f"}, {"b", "b"}, {"s", "s"}, {"e", "e"}, {"s", "e"}, {"i", "f"}} {
		for _, dst := range []string{"n1", pair[0]} {
			if small && dst != "n1" {
				continue
			}
			out = append(out, model.Instr{Fn: "fn2:op", Src1: pair[0], Src2: pair[1], Dst: dst})
		}
	}
	for _, b := range []struct{ name, src string }{{"ToUpper", "s"}, {"ToUpper", "e"}, {"ToUpper", "i"}, {"nope", "s"}, {"ToUpper", "n1"}} {
		for _, dst := range []string{"n1", b.src} {
			if small && dst != b.src {
				continue
			}
			out = append(out, model.Instr{Fn: "builtin:" + b.name, Src1: b.src, Dst: dst})
		}
	}
	return out
}

func c06Clauses() []model.Clause {
	gt := func(v int) model.Clause { l := lf("i", ">", "int"); l.I = v; return model.LeafC(l) }
	return []model.Clause{
		gt(100),  // no rows
		gt(-100), // all rows
		gt(0),    // some rows
		model.LeafC(lf("s", "isnull", "none")),
		model.LeafC(lf("f", "isnotnull", "none")),
		model.Or(gt(5), model.LeafC(lf("e", "isnull", "none"))),
	}
}

func runApplyCase(c applyCase) *core.Failure {
	vars := c06Variants()
	if c.Variant >= len(vars) {
		return core.Failf("bad variant")
	}
	v := vars[c.Variant]
	in := v.in
	if in.Err {
		return core.Failf("input frame %s could not be built: %s", c06VariantNames[c.Variant], in.ErrText)
	}
	before := in.String()
	desc := func() string {
		var parts []string
		for _, i := range c.Instrs {
			parts = append(parts, i.String())
		}
		f := ""
		if c.Filtered != nil {
			f = " filtered by " + c.Filtered.String()
		}
		return fmt.Sprintf("[%s]%s on %s frame\n input: %s", strings.Join(parts, "; "), f, c06VariantNames[c.Variant], in)
	}
	var fail *core.Failure
	switch {
	case c.RowNums != "":
		got := model.Observe(v.qf.WithRowNums(c.RowNums))
		var want model.Frame
		if !checkNameOK(c.RowNums) {
			want = model.Frame{Err: true}
		} else {
			col := model.Col{Name: c.RowNums, Kind: model.Int, Cells: make([]model.Cell, in.N)}
			for r := range col.Cells {
				col.Cells[r] = model.I(r)
			}
			want = in.Clone()
			if _, i, ok := want.Col(c.RowNums); ok {
				want.Cols[i] = col
			} else {
				want.Cols = append(want.Cols, col)
			}
		}
		if d := model.Diff(want, got); d != "" {
			fail = core.Failf("WithRowNums(%q) on %s frame: %s\n input: %s\n   got: %s", c.RowNums, c06VariantNames[c.Variant], d, in, got)
		}
	case c.Filtered != nil:
		instrs, calls := model.BuildInstrs(c.Instrs, in)
		clause := model.BuildClause(*c.Filtered, in.Kinds())
		got := model.Observe(v.qf.FilteredApply(clause, instrs...))
		rows, _ := model.Evaluator{F: in}.Filter(*c.Filtered)
		sel := map[int]bool{}
		for _, r := range rows {
			sel[r] = true
		}
		norm := func(want, got model.Frame) model.Frame {
			// non-matching rows of string destinations: "" and null are both "the zero/null value"
			if want.Err || got.Err {
				return got
			}
			g := got.Clone()
			for _, in := range c.Instrs {
				wc, _, ok := want.Col(in.Dst)
				gc, gi, ok2 := g.Col(in.Dst)
				if !ok || !ok2 || wc.Kind != model.String || gc.Kind != model.String || len(gc.Cells) != len(wc.Cells) {
					continue
				}
				for r := range gc.Cells {
					if !sel[r] && wc.Cells[r].Null && !gc.Cells[r].Null && gc.Cells[r].S == "" {
						g.Cols[gi].Cells[r] = model.Null()
					}
				}
			}
			return g
		}
		want := model.FilteredApply(in, *c.Filtered, c.Instrs, model.Defects{})
		d := model.Diff(want, norm(want, got))
		if d != "" {
			fail = core.Failf("FilteredApply %s: %s\n  want: %s\n   got: %s", desc(), d, want, got)
			// attribute to recorded defects: smallest set of switches that explains the result
			ids := []string{"C06-filteredapply-const-all-rows", "C06-filteredapply-copy-all-rows", "C06-filteredapply-enum-upper-all-rows"}
			best := ""
			for _, mask := range masksBySize(3) {
				df := model.Defects{FilteredApplyConstAllRows: mask&1 != 0, FilteredApplyCopyAllRows: mask&2 != 0, FilteredApplyEnumUpperAllRows: mask&4 != 0}
				w2 := model.FilteredApply(in, *c.Filtered, c.Instrs, df)
				if model.Diff(w2, norm(w2, got)) == "" {
					var sel []string
					for b := 0; b < 3; b++ {
						if mask&(1<<b) != 0 {
							sel = append(sel, ids[b])
						}
					}
					best = strings.Join(sel, ",")
					break
				}
			}
			fail.Finding = best
		} else if !want.Err {
			for i, in := range c.Instrs {
				if strings.HasPrefix(in.Fn, "fn0:") && calls[i] != len(rows) {
					fail = core.Failf("FilteredApply %s: zero-argument function of instruction %d was called %d times for %d matching rows", desc(), i, calls[i], len(rows))
				}
			}
		}
	default:
		instrs, calls := model.BuildInstrs(c.Instrs, in)
		res := v.qf.Apply(instrs...)
		got := model.Observe(res)
		want := model.Apply(in, c.Instrs)
		if d := model.Diff(want, got); d != "" {
			fail = core.Failf("Apply %s: %s\n  want: %s\n   got: %s", desc(), d, want, got)
		} else if !want.Err && c.Battery {
			decl := map[string][]string{}
			if ec, _, ok := in.Col("e"); ok && ec.Kind == model.Enum && len(ec.EnumVals) > 0 {
				decl["e"] = ec.EnumVals
			}
			for _, ins := range c.Instrs {
				if ins.Dst == "e" {
					delete(decl, "e") // the column is no longer the declared one
				}
			}
			if len(c.Instrs) == 0 {
				fail = latentDeep(res, decl, "the "+c06VariantNames[c.Variant]+" frame")
			} else if fail = latentBattery(res, decl, "Apply "+desc()); fail == nil {
				fail = bookkeepingBattery(res, "Apply "+desc())
			}
		}
		if fail == nil && !want.Err {
			for i, in2 := range c.Instrs {
				if strings.HasPrefix(in2.Fn, "fn0:") && calls[i] != in.N {
					fail = core.Failf("Apply %s: zero-argument function of instruction %d was called %d times for %d rows", desc(), i, calls[i], in.N)
				}
			}
		}
	}
	if fail != nil {
		return fail
	}
	after := model.Observe(v.qf)
	after.AdoptMeta(in)
	if after.String() != before {
		return core.Failf("operation changed its receiver: %s", desc())
	}
	return nil
}

// masksBySize lists the non-empty subsets of n switches, smallest first.
func masksBySize(n int) []int {
	var out []int
	for size := 1; size <= n; size++ {
		for m := 1; m < 1<<n; m++ {
			c := 0
			for b := 0; b < n; b++ {
				if m&(1<<b) != 0 {
					c++
				}
			}
			if c == size {
				out = append(out, m)
			}
		}
	}
	return out
}

func checkNameOK(name string) bool {
	if len(name) == 0 || strings.HasPrefix(name, "$") {
		return false
	}
	if len(name) > 2 && ((strings.HasPrefix(name, "'") && strings.HasSuffix(name, "'")) || (strings.HasPrefix(name, `"`) && strings.HasSuffix(name, `"`))) {
		return false
	}
	return true
}

func c06Run(ctx *core.Ctx) {
	vars := c06Variants()
	exec := func(c applyCase) {
		ctx.Exec(c, func() *core.Failure { return runApplyCase(c) })
		want := model.Frame{}
		in := vars[c.Variant].in
		switch {
		case c.RowNums != "":
			ctx.Outcome("rownums")
			ctx.Nontrivial(fmt.Sprintf("rn/%d/%s", c.Variant, c.RowNums))
			return
		case c.Filtered != nil:
			want = model.FilteredApply(in, *c.Filtered, c.Instrs, model.Defects{})
		default:
			want = model.Apply(in, c.Instrs)
		}
		if want.Err {
			ctx.Outcome("model-error")
		} else {
			ctx.Outcome(fmt.Sprintf("ok-%dcols", len(want.Cols)))
			ctx.Nontrivial(fmt.Sprintf("%d/%v/%v", c.Variant, c.Instrs, c.Filtered))
		}
		if ctx.WantSample() && ctx.Index()%2003 == 5 {
			ctx.Sample(c)
		}
	}
	full := c06Alphabet(false)
	small := c06Alphabet(true)
	// Apply: all lists of length 1 and 2 over the full alphabet
	for vi := range vars {
		for _, a := range full {
			if ctx.Mine() {
				exec(applyCase{Variant: vi, Instrs: []model.Instr{a}})
			}
			for _, b := range full {
				if ctx.Mine() {
					exec(applyCase{Variant: vi, Instrs: []model.Instr{a, b}})
				}
			}
		}
	}
	// length 3 over the reduced alphabet (thorough)
	if !ctx.Quick() {
		for vi := range vars {
			for _, a := range small {
				for _, b := range small {
					for _, c := range small {
						if ctx.Mine() {
							exec(applyCase{Variant: vi, Instrs: []model.Instr{a, b, c}})
						}
					}
				}
			}
		}
	}
	// FilteredApply: 6 clauses x lists of length <= 2 (second instruction from the reduced alphabet in quick)
	second := small
	if !ctx.Quick() {
		second = full
	}
	for vi := range vars {
		for ci, cl := range c06Clauses() {
			cl := cl
			_ = ci
			for _, a := range full {
				if ctx.Mine() {
					exec(applyCase{Variant: vi, Instrs: []model.Instr{a}, Filtered: &cl})
				}
				for _, b := range second {
					if ctx.Mine() {
						exec(applyCase{Variant: vi, Instrs: []model.Instr{a, b}, Filtered: &cl})
					}
				}
			}
		}
	}
	// latent state: every frame variant itself (deep battery) and the result of every single instruction on it
	for vi := range vars {
		if ctx.Mine() {
			exec(applyCase{Variant: vi, Battery: true})
		}
		for _, a := range full {
			if ctx.Mine() {
				exec(applyCase{Variant: vi, Instrs: []model.Instr{a}, Battery: true})
			}
		}
	}
	// WithRowNums on every frame variant: new name, existing names, illegal names
	for vi := range vars {
		for _, name := range append([]string{"rn", "i", "s", "e", "", "$x"}, systematicNames()...) {
			if ctx.Mine() {
				exec(applyCase{Variant: vi, RowNums: name})
			}
		}
	}
}

func init() {
	core.Register(&core.Check{
		ID:    "C06",
		Setup: func() { c06Variants() },
		Level: "model_checking",
		Rule: "case = (frame variant: 8 index shapes + result of Aggregate, Select, Copy + zero-row, one-row and last-row-of-a-sorted-frame variants; instruction list; optional FilteredApply clause). All instruction lists of length <= 2 over a ~150-instruction alphabet " +
			"(constants of every type incl. nil string, column copies, zero/one/two-argument functions of every supported signature per source type, built-ins, sources/destinations overlapping, later instructions reading earlier destinations), " +
			"length 3 over a reduced alphabet (thorough), x 6 FilteredApply clauses, WithRowNums with 6 names. Non-trivial = the model accepts the program; distinct by (variant, program).",
		Assumptions: []string{
			"sequential row-wise model (model/apply.go); the user functions are a fixed registry; zero-argument functions are checked by value and call count, not call order (only WithRowNums fixes the order)",
			"for FilteredApply the non-matching rows of a string destination may hold null or \"\" (the statement says zero/null value)",
			"one 4-row base frame; cell values outside it are not explored",
		},
		Bound: map[string]string{
			"quick":    "Apply lists length<=2 (full alphabet) on 8 frame variants; FilteredApply 6 clauses x length<=2 (second instruction from reduced alphabet); WithRowNums",
			"thorough": "adds Apply lists of length 3 over the reduced alphabet and FilteredApply length 2 over the full alphabet",
		},
		Run:    c06Run,
		Replay: replayAs(runApplyCase),
	})
}
