package model

import (
	"fmt"
	"math"
	"strconv"
	"strings"

	"github.com/tobgu/qframe"
	"github.com/tobgu/qframe/config/eval"
	"github.com/tobgu/qframe/types"
)

// Expr is the data form of an Eval expression tree.
type Expr struct {
	Kind string `json:"kind"` // col | const | call
	Col  string `json:"col,omitempty"`
	// constant
	CK string `json:"ck,omitempty"` // int float bool string nil
	I  int    `json:"i,omitempty"`
	FB uint64 `json:"fb,omitempty"`
	B  bool   `json:"b,omitempty"`
	S  string `json:"s,omitempty"`
	// call
	Op   string `json:"op,omitempty"`
	Args []Expr `json:"args,omitempty"`
	// BadOp: use a non-string operator (42) in raw form
	BadOp bool `json:"bad_op,omitempty"`
}

func ColE(name string) Expr          { return Expr{Kind: "col", Col: name} }
func IntE(v int) Expr                { return Expr{Kind: "const", CK: "int", I: v} }
func FloatE(v float64) Expr          { return Expr{Kind: "const", CK: "float", FB: math.Float64bits(v)} }
func BoolE(v bool) Expr              { return Expr{Kind: "const", CK: "bool", B: v} }
func StrE(v string) Expr             { return Expr{Kind: "const", CK: "string", S: v} }
func NilE() Expr                     { return Expr{Kind: "const", CK: "nil"} }
func Call(op string, a ...Expr) Expr { return Expr{Kind: "call", Op: op, Args: a} }

func (e Expr) String() string {
	switch e.Kind {
	case "col":
		return "$" + e.Col
	case "const":
		switch e.CK {
		case "int":
			return strconv.Itoa(e.I)
		case "float":
			return strconv.FormatFloat(math.Float64frombits(e.FB), 'g', -1, 64) + "f"
		case "bool":
			return strconv.FormatBool(e.B)
		case "string":
			return strconv.Quote(e.S)
		}
		return "nil"
	}
	parts := make([]string, len(e.Args))
	for i, a := range e.Args {
		parts[i] = a.String()
	}
	op := e.Op
	if e.BadOp {
		op = "<42>"
	}
	return op + "(" + strings.Join(parts, ",") + ")"
}

func (e Expr) Depth() int {
	d := 0
	for _, a := range e.Args {
		if ad := a.Depth(); ad > d {
			d = ad
		}
	}
	if e.Kind == "call" {
		return d + 1
	}
	return 0
}

// ---- building the real expression -----------------------------------------

func (e Expr) leafValue() interface{} {
	if e.Kind == "col" {
		return types.ColumnName(e.Col)
	}
	switch e.CK {
	case "int":
		return e.I
	case "float":
		return math.Float64frombits(e.FB)
	case "bool":
		return e.B
	case "string":
		return e.S
	}
	return nil
}

// BuildExpr constructs the real expression. style "expr" uses qframe.Expr with raw leaf
// values, style "val" wraps every leaf in qframe.Val, style "raw" uses nested []interface{} lists handed to Val
// (only possible for 1-2 arguments; n-ary calls fall back to Expr).
func BuildExpr(e Expr, style string) qframe.Expression {
	if e.Kind != "call" {
		return qframe.Val(e.leafValue())
	}
	if style == "raw" && (len(e.Args) == 1 || len(e.Args) == 2) || e.BadOp {
		return qframe.Val(rawExpr(e))
	}
	args := make([]interface{}, len(e.Args))
	for i, a := range e.Args {
		switch {
		case a.Kind == "call":
			args[i] = BuildExpr(a, style)
		case style == "val":
			args[i] = qframe.Val(a.leafValue()) // leaves as Expression objects (pass-through column / constant expressions)
		default:
			args[i] = a.leafValue()
		}
	}
	// the same operand list is used for two expressions, as a program building several expressions
	// from one slice would; the one that is evaluated is the second
	_ = qframe.Expr(e.Op, args...)
	return qframe.Expr(e.Op, args...)
}

func rawExpr(e Expr) interface{} {
	if e.Kind != "call" {
		return e.leafValue()
	}
	var l []interface{}
	if e.BadOp {
		l = append(l, 42)
	} else {
		l = append(l, e.Op)
	}
	for _, a := range e.Args {
		if a.Kind == "call" && len(a.Args) > 2 {
			l = append(l, BuildExpr(a, "expr"))
		} else {
			l = append(l, rawExpr(a))
		}
	}
	return l
}

// UserCtx is the default context plus two registered user functions.
func UserCtx() *eval.Context {
	ctx := eval.NewDefaultCtx()
	if err := ctx.SetFunc("neg", func(x int) int { return -x }); err != nil {
		panic(err)
	}
	if err := ctx.SetFunc("sub2", func(x, y int) int { return x - 2*y }); err != nil {
		panic(err)
	}
	// functions that do NOT map a null operand to the zero value of their result type
	if err := ctx.SetFunc("fill", func(x *string) *string {
		r := "N/A"
		if x != nil {
			r = *x + "?"
		}
		return &r
	}); err != nil {
		panic(err)
	}
	if err := ctx.SetFunc("isnil", func(x *string) bool { return x == nil }); err != nil {
		panic(err)
	}
	if err := ctx.SetFunc("lenor", func(x *string) int {
		if x == nil {
			return -1
		}
		return len(*x)
	}); err != nil {
		panic(err)
	}
	return ctx
}

// ---- reference interpreter -------------------------------------------------

type value struct {
	kind  Kind // function type: Enum is treated as String
	cells []Cell
	// isEnumCol: a bare enum column reference keeps its enum type when copied
	col *Col
}

func fkind(k Kind) Kind {
	if k == Enum {
		return String
	}
	return k
}

type evalErr struct{ msg string }

func (e evalErr) Error() string { return e.msg }

func unary(kind Kind, op string, user bool) (Kind, func(Cell) Cell, bool) {
	switch kind {
	case Int:
		switch op {
		case "abs":
			return Int, func(c Cell) Cell {
				if c.I < 0 {
					return I(-c.I)
				}
				return I(c.I)
			}, true
		case "str":
			return String, func(c Cell) Cell { return S(strconv.Itoa(c.I)) }, true
		case "bool":
			return Bool, func(c Cell) Cell { return B(c.I != 0) }, true
		case "float":
			return Float, func(c Cell) Cell { return F(float64(c.I)) }, true
		case "neg":
			if user {
				return Int, func(c Cell) Cell { return I(-c.I) }, true
			}
		}
	case Float:
		switch op {
		case "abs":
			return Float, func(c Cell) Cell { return F(math.Abs(c.F)) }, true
		case "str":
			return String, func(c Cell) Cell { return S(fmt.Sprintf("%f", c.F)) }, true
		case "int":
			return Int, func(c Cell) Cell { return I(int(c.F)) }, true
		}
	case Bool:
		switch op {
		case "!":
			return Bool, func(c Cell) Cell { return B(!c.B) }, true
		case "str":
			return String, func(c Cell) Cell { return S(strconv.FormatBool(c.B)) }, true
		case "int":
			return Int, func(c Cell) Cell {
				if c.B {
					return I(1)
				}
				return I(0)
			}, true
		}
	case String:
		switch op {
		case "upper":
			return String, func(c Cell) Cell {
				if c.Null {
					return Null()
				}
				return S(strings.ToUpper(c.S))
			}, true
		case "lower":
			return String, func(c Cell) Cell {
				if c.Null {
					return Null()
				}
				return S(strings.ToLower(c.S))
			}, true
		case "str":
			return String, func(c Cell) Cell { return c }, true
		case "len":
			return Int, func(c Cell) Cell {
				if c.Null {
					return I(0)
				}
				return I(len(c.S))
			}, true
		case "fill":
			if user {
				return String, func(c Cell) Cell {
					if c.Null {
						return S("N/A")
					}
					return S(c.S + "?")
				}, true
			}
		case "isnil":
			if user {
				return Bool, func(c Cell) Cell { return B(c.Null) }, true
			}
		case "lenor":
			if user {
				return Int, func(c Cell) Cell {
					if c.Null {
						return I(-1)
					}
					return I(len(c.S))
				}, true
			}
		}
	}
	return Undef, nil, false
}

func binary(kind Kind, op string, user bool) (func(a, b Cell) Cell, bool) {
	switch kind {
	case Int:
		switch op {
		case "+":
			return func(a, b Cell) Cell { return I(a.I + b.I) }, true
		case "-":
			return func(a, b Cell) Cell { return I(a.I - b.I) }, true
		case "*":
			return func(a, b Cell) Cell { return I(a.I * b.I) }, true
		case "/":
			return func(a, b Cell) Cell { return I(a.I / b.I) }, true
		case "sub2":
			if user {
				return func(a, b Cell) Cell { return I(a.I - 2*b.I) }, true
			}
		}
	case Float:
		switch op {
		case "+":
			return func(a, b Cell) Cell { return F(a.F + b.F) }, true
		case "-":
			return func(a, b Cell) Cell { return F(a.F - b.F) }, true
		case "*":
			return func(a, b Cell) Cell { return F(a.F * b.F) }, true
		case "/":
			return func(a, b Cell) Cell { return F(a.F / b.F) }, true
		}
	case Bool:
		switch op {
		case "&":
			return func(a, b Cell) Cell { return B(a.B && b.B) }, true
		case "|":
			return func(a, b Cell) Cell { return B(a.B || b.B) }, true
		case "!=":
			return func(a, b Cell) Cell { return B(a.B != b.B) }, true
		case "nand":
			return func(a, b Cell) Cell { return B(!(a.B && b.B)) }, true
		}
	case String:
		if op == "+" {
			return func(a, b Cell) Cell {
				if a.Null {
					return b
				}
				if b.Null {
					return a
				}
				return S(a.S + b.S)
			}, true
		}
	}
	return nil, false
}

func (e Expr) eval(f Frame, user bool) (value, error) {
	switch e.Kind {
	case "col":
		c, _, ok := f.Col(e.Col)
		if !ok {
			return value{}, evalErr{"unknown column " + e.Col}
		}
		cc := c
		return value{kind: fkind(c.Kind), cells: c.Cells, col: &cc}, nil
	case "const":
		cells := make([]Cell, f.N)
		var k Kind
		var c Cell
		switch e.CK {
		case "int":
			k, c = Int, I(e.I)
		case "float":
			k, c = Float, F(math.Float64frombits(e.FB))
		case "bool":
			k, c = Bool, B(e.B)
		case "string":
			k, c = String, S(e.S)
		default:
			k, c = String, Null()
		}
		for i := range cells {
			cells[i] = c
		}
		return value{kind: k, cells: cells}, nil
	}
	if e.BadOp {
		return value{}, evalErr{"non-string operator"}
	}
	switch len(e.Args) {
	case 0:
		return value{}, evalErr{"no arguments"}
	case 1:
		a, err := e.Args[0].eval(f, user)
		if err != nil {
			return value{}, err
		}
		rk, fn, ok := unary(a.kind, e.Op, user)
		if !ok {
			return value{}, evalErr{fmt.Sprintf("no single argument function %q for %s", e.Op, a.kind)}
		}
		out := make([]Cell, f.N)
		for i := range out {
			out[i] = fn(a.cells[i])
		}
		return value{kind: rk, cells: out}, nil
	}
	// left fold
	acc, err := e.Args[0].eval(f, user)
	if err != nil {
		return value{}, err
	}
	for _, arg := range e.Args[1:] {
		b, err := arg.eval(f, user)
		if err != nil {
			return value{}, err
		}
		fn, ok := binary(acc.kind, e.Op, user)
		if !ok {
			return value{}, evalErr{fmt.Sprintf("no double argument function %q for %s", e.Op, acc.kind)}
		}
		if b.kind != acc.kind {
			return value{}, evalErr{"operand types differ"}
		}
		if acc.col != nil && b.col != nil && acc.col.Kind != b.col.Kind {
			// enum column with string column: Apply2 requires the same column type
			return value{}, evalErr{"column types differ"}
		}
		// an enum column combined with a constant (a string column): also a type mismatch
		if (acc.col != nil && acc.col.Kind == Enum) != (b.col != nil && b.col.Kind == Enum) {
			return value{}, evalErr{"enum combined with non-enum"}
		}
		out := make([]Cell, f.N)
		for i := range out {
			out[i] = fn(acc.cells[i], b.cells[i])
		}
		acc = value{kind: acc.kind, cells: out}
	}
	return acc, nil
}

// Eval is the reference for QFrame.Eval(dst, expr).
func Eval(f Frame, dst string, e Expr, user bool) Frame {
	if f.Err {
		return f
	}
	v, err := e.eval(f, user)
	if err != nil {
		return errFrame("%v", err)
	}
	if !checkName(dst) {
		if e.Kind == "col" && e.Col == dst {
			return f
		}
		return errFrame("illegal destination name")
	}
	c := Col{Name: dst, Kind: v.kind, Cells: v.cells}
	if v.col != nil {
		// a bare column reference copies the column, type included
		c.Kind = v.col.Kind
		c.EnumVals = v.col.EnumVals
	}
	return setCol(f, c)
}
