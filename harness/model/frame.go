// Package model holds the reference model of a frame (plain rows of cells),
// the observation function that reads a real QFrame through its public API
// only, and the builders that turn a model frame into real frames with
// different physical row indexes ("shapes").
package model

import (
	"fmt"
	"math"
	"sort"
	"strconv"
	"strings"

	"github.com/tobgu/qframe"
	"github.com/tobgu/qframe/config/newqf"
	"github.com/tobgu/qframe/types"
)

type Kind string

const (
	Int    Kind = "int"
	Float  Kind = "float"
	Bool   Kind = "bool"
	String Kind = "string"
	Enum   Kind = "enum"
	Undef  Kind = "undef"
)

// Cell is one value; which field is meaningful depends on the column kind.
type Cell struct {
	Null bool    `json:"null,omitempty"`
	I    int     `json:"i,omitempty"`
	F    float64 `json:"-"`
	B    bool    `json:"b,omitempty"`
	S    string  `json:"s,omitempty"`
	// FB carries F as bits for JSON (NaN/Inf are not representable in JSON).
	FB uint64 `json:"fb,omitempty"`
}

func I(v int) Cell        { return Cell{I: v} }
func F(v float64) Cell    { return Cell{F: v, FB: math.Float64bits(v), Null: math.IsNaN(v)} }
func B(v bool) Cell       { return Cell{B: v} }
func S(v string) Cell     { return Cell{S: v} }
func Null() Cell          { return Cell{Null: true} }
func NaN() Cell           { return F(math.NaN()) }
func (c *Cell) FixFloat() { c.F = math.Float64frombits(c.FB) }

type Col struct {
	Name  string `json:"name"`
	Kind  Kind   `json:"kind"`
	Cells []Cell `json:"cells"`
	// EnumVals is the declared value list of an enum column (nil = derived).
	EnumVals []string `json:"enum_vals,omitempty"`
}

type Frame struct {
	Cols []Col `json:"cols"`
	N    int   `json:"n"`
	Err  bool  `json:"err,omitempty"`
	// ErrText is informational only.
	ErrText string `json:"err_text,omitempty"`
}

// Fix restores float values after JSON decoding.
func (f *Frame) Fix() {
	for ci := range f.Cols {
		if f.Cols[ci].Kind == Float {
			for ri := range f.Cols[ci].Cells {
				f.Cols[ci].Cells[ri].FixFloat()
				f.Cols[ci].Cells[ri].Null = math.IsNaN(f.Cols[ci].Cells[ri].F)
			}
		}
	}
}

func (f Frame) Col(name string) (Col, int, bool) {
	for i, c := range f.Cols {
		if c.Name == name {
			return c, i, true
		}
	}
	return Col{}, -1, false
}

func (f Frame) Names() []string {
	r := make([]string, len(f.Cols))
	for i, c := range f.Cols {
		r[i] = c.Name
	}
	return r
}

// Clone deep-copies a frame.
func (f Frame) Clone() Frame {
	g := Frame{N: f.N, Err: f.Err, ErrText: f.ErrText, Cols: make([]Col, len(f.Cols))}
	for i, c := range f.Cols {
		g.Cols[i] = Col{Name: c.Name, Kind: c.Kind, Cells: append([]Cell(nil), c.Cells...), EnumVals: append([]string(nil), c.EnumVals...)}
		if c.EnumVals == nil {
			g.Cols[i].EnumVals = nil
		}
	}
	return g
}

// Rows returns a frame with the given rows (by position) of f.
func (f Frame) Rows(ix []int) Frame {
	g := Frame{N: len(ix), Cols: make([]Col, len(f.Cols))}
	for i, c := range f.Cols {
		cells := make([]Cell, len(ix))
		for j, r := range ix {
			cells[j] = c.Cells[r]
		}
		g.Cols[i] = Col{Name: c.Name, Kind: c.Kind, Cells: cells, EnumVals: c.EnumVals}
	}
	return g
}

// CellString renders one cell canonically (floats by bit pattern, NaNs merged).
func CellString(k Kind, c Cell) string {
	switch k {
	case Int:
		return "i" + strconv.Itoa(c.I)
	case Float:
		if math.IsNaN(c.F) {
			return "fNaN"
		}
		return "f" + strconv.FormatUint(math.Float64bits(c.F), 16) + "(" + strconv.FormatFloat(c.F, 'g', -1, 64) + ")"
	case Bool:
		if c.B {
			return "bT"
		}
		return "bF"
	case String, Enum:
		if c.Null {
			return "null"
		}
		return strconv.Quote(c.S)
	}
	return "?"
}

// CellEq compares cells of the same kind (NaN = NaN, -0 != 0 by bits).
func CellEq(k Kind, a, b Cell) bool {
	switch k {
	case Int:
		return a.I == b.I
	case Float:
		if math.IsNaN(a.F) || math.IsNaN(b.F) {
			return math.IsNaN(a.F) && math.IsNaN(b.F)
		}
		return math.Float64bits(a.F) == math.Float64bits(b.F)
	case Bool:
		return a.B == b.B
	case String, Enum:
		if a.Null || b.Null {
			return a.Null == b.Null
		}
		return a.S == b.S
	}
	return true
}

// String renders the whole frame canonically.
func (f Frame) String() string {
	if f.Err {
		return "ERR"
	}
	var sb strings.Builder
	fmt.Fprintf(&sb, "n=%d", f.N)
	for _, c := range f.Cols {
		fmt.Fprintf(&sb, " | %s:%s[", c.Name, c.Kind)
		for i, cell := range c.Cells {
			if i > 0 {
				sb.WriteByte(' ')
			}
			sb.WriteString(CellString(c.Kind, cell))
		}
		sb.WriteByte(']')
	}
	return sb.String()
}

// Diff returns "" when the two frames are observably equal.
func Diff(want, got Frame) string {
	if want.Err != got.Err {
		return fmt.Sprintf("Err: want %v got %v (%s)", want.Err, got.Err, got.ErrText)
	}
	if want.Err {
		return ""
	}
	if want.N != got.N {
		return fmt.Sprintf("Len: want %d got %d", want.N, got.N)
	}
	if len(want.Cols) != len(got.Cols) {
		return fmt.Sprintf("columns: want %v got %v", want.Names(), got.Names())
	}
	for i, wc := range want.Cols {
		gc := got.Cols[i]
		if wc.Name != gc.Name {
			return fmt.Sprintf("column %d name: want %q got %q", i, wc.Name, gc.Name)
		}
		if wc.Kind != gc.Kind {
			return fmt.Sprintf("column %q type: want %s got %s", wc.Name, wc.Kind, gc.Kind)
		}
		if len(wc.Cells) != len(gc.Cells) {
			return fmt.Sprintf("column %q length: want %d got %d", wc.Name, len(wc.Cells), len(gc.Cells))
		}
		for r := range wc.Cells {
			if !CellEq(wc.Kind, wc.Cells[r], gc.Cells[r]) {
				return fmt.Sprintf("column %q row %d: want %s got %s", wc.Name, r, CellString(wc.Kind, wc.Cells[r]), CellString(gc.Kind, gc.Cells[r]))
			}
		}
	}
	return ""
}

// ---------------------------------------------------------------------------
// observation of a real frame, through the public API only

func kindOf(t types.DataType) Kind {
	switch t {
	case types.Int:
		return Int
	case types.Float:
		return Float
	case types.Bool:
		return Bool
	case types.String:
		return String
	case types.Enum:
		return Enum
	}
	return Undef
}

// Observe reads Err, Len, ColumnNames, ColumnTypes and every cell via the
// typed views' ItemAt.
func Observe(qf qframe.QFrame) Frame {
	if qf.Err != nil {
		return Frame{Err: true, ErrText: qf.Err.Error(), N: qf.Len()}
	}
	names := qf.ColumnNames()
	typs := qf.ColumnTypes()
	f := Frame{N: qf.Len(), Cols: make([]Col, len(names))}
	for i, name := range names {
		k := kindOf(typs[i])
		col := Col{Name: name, Kind: k}
		switch k {
		case Int:
			v := qf.MustIntView(name)
			col.Cells = make([]Cell, v.Len())
			for r := 0; r < v.Len(); r++ {
				col.Cells[r] = I(v.ItemAt(r))
			}
		case Float:
			v := qf.MustFloatView(name)
			col.Cells = make([]Cell, v.Len())
			for r := 0; r < v.Len(); r++ {
				col.Cells[r] = F(v.ItemAt(r))
			}
		case Bool:
			v := qf.MustBoolView(name)
			col.Cells = make([]Cell, v.Len())
			for r := 0; r < v.Len(); r++ {
				col.Cells[r] = B(v.ItemAt(r))
			}
		case String:
			v := qf.MustStringView(name)
			col.Cells = make([]Cell, v.Len())
			for r := 0; r < v.Len(); r++ {
				if p := v.ItemAt(r); p == nil {
					col.Cells[r] = Null()
				} else {
					col.Cells[r] = S(strings.Clone(*p))
				}
			}
		case Enum:
			v := qf.MustEnumView(name)
			col.Cells = make([]Cell, v.Len())
			for r := 0; r < v.Len(); r++ {
				if p := v.ItemAt(r); p == nil {
					col.Cells[r] = Null()
				} else {
					col.Cells[r] = S(strings.Clone(*p))
				}
			}
		default:
			col.Cells = nil
		}
		f.Cols[i] = col
	}
	return f
}

// ObserveSlices is a second observation path: every column through View.Slice()
// instead of View.ItemAt.
func ObserveSlices(qf qframe.QFrame) Frame {
	if qf.Err != nil {
		return Frame{Err: true, ErrText: qf.Err.Error(), N: qf.Len()}
	}
	names := qf.ColumnNames()
	typs := qf.ColumnTypes()
	f := Frame{N: qf.Len(), Cols: make([]Col, len(names))}
	strs := func(v []*string) []Cell {
		cells := make([]Cell, len(v))
		for r, p := range v {
			if p == nil {
				cells[r] = Null()
			} else {
				cells[r] = S(strings.Clone(*p))
			}
		}
		return cells
	}
	for i, name := range names {
		k := kindOf(typs[i])
		col := Col{Name: name, Kind: k}
		switch k {
		case Int:
			for _, x := range qf.MustIntView(name).Slice() {
				col.Cells = append(col.Cells, I(x))
			}
		case Float:
			for _, x := range qf.MustFloatView(name).Slice() {
				col.Cells = append(col.Cells, F(x))
			}
		case Bool:
			for _, x := range qf.MustBoolView(name).Slice() {
				col.Cells = append(col.Cells, B(x))
			}
		case String:
			col.Cells = strs(qf.MustStringView(name).Slice())
		case Enum:
			col.Cells = strs(qf.MustEnumView(name).Slice())
		}
		f.Cols[i] = col
	}
	return f
}

// ObserveAs observes a frame that was constructed to denote want and returns
// the content the case should take as its input. Normally that is the ItemAt
// observation (equal to want). If it differs from want, but the frame read
// through the other public path (View.Slice) is exactly want, the frame does
// denote want and want is the input: an operation that then acts on other
// content violates its property even if it agrees with ItemAt. If neither path
// yields want (the Sort/Filter/Slice used for construction is broken) the
// observation is the input, as before, so that checks of other operations do
// not raise an alarm about a defect that is not theirs.
func ObserveAs(qf qframe.QFrame, want Frame) Frame {
	obs := Observe(qf)
	if obs.Err || want.Err {
		return obs
	}
	if Diff(want, obs) == "" {
		return obs
	}
	if alt := ObserveSlices(qf); Diff(want, alt) == "" {
		return alt
	}
	return obs
}

// ---------------------------------------------------------------------------
// building real frames

// Data converts a model column into the data slice accepted by qframe.New.
func Data(c Col) interface{} {
	switch c.Kind {
	case Int:
		d := make([]int, len(c.Cells))
		for i, x := range c.Cells {
			d[i] = x.I
		}
		return d
	case Float:
		d := make([]float64, len(c.Cells))
		for i, x := range c.Cells {
			d[i] = x.F
		}
		return d
	case Bool:
		d := make([]bool, len(c.Cells))
		for i, x := range c.Cells {
			d[i] = x.B
		}
		return d
	case String, Enum:
		d := make([]*string, len(c.Cells))
		for i, x := range c.Cells {
			if !x.Null {
				s := x.S
				d[i] = &s
			}
		}
		return d
	}
	return nil
}

// Build creates a real frame with identity index holding exactly f.
func Build(f Frame) qframe.QFrame {
	data := map[string]interface{}{}
	enums := map[string][]string{}
	order := make([]string, 0, len(f.Cols))
	for _, c := range f.Cols {
		data[c.Name] = Data(c)
		order = append(order, c.Name)
		if c.Kind == Enum {
			enums[c.Name] = c.EnumVals
		}
	}
	fns := []newqf.ConfigFunc{newqf.ColumnOrder(order...)}
	if len(enums) > 0 {
		fns = append(fns, newqf.Enums(enums))
	}
	return qframe.New(data, fns...)
}

// Shapes are the ways a logical frame is physically realised.
const (
	ShapeIdentity   = iota
	ShapeReversed   // physical rows reversed, restored by Sort on a key column
	ShapeSliced     // junk rows before and after, removed by Slice
	ShapeSparse     // junk rows interleaved, removed by Filter
	ShapePermuted   // physical rows rotated, restored by Sort on a key column
	ShapeMidSwap    // first and last row stay in place, the rows between them are stored in reverse order (restored by Sort)
	ShapeSparsePerm // junk rows interleaved AND the kept rows stored in reverse order (Filter, then Sort)
	// ShapeEndsDense: the first and the last logical row sit n-1 physical positions apart (as they would in a
	// contiguous range), the rows between them are stored OUTSIDE that range, on both sides of it
	ShapeEndsDense
	NShapes
)

var ShapeNames = []string{"identity", "reversed", "sliced", "sparse", "permuted", "midswap", "sparseperm", "endsdense"}

const keyCol = "zzkey"

func junkCell(c Col, i int) Cell {
	n := len(c.Cells)
	switch c.Kind {
	case Int:
		return I(9000 + i)
	case Float:
		return F(9000.5 + float64(i))
	case Bool:
		return B(i%2 == 0)
	case String:
		return S("JUNK" + strconv.Itoa(i))
	case Enum:
		if n > 0 {
			return c.Cells[(i*7+1)%n]
		}
		return Null()
	}
	return Cell{}
}

// physical lays the logical rows out at the given physical positions of a
// frame with total rows; the remaining positions hold junk. key[p] is the
// logical row number at p or -1.
func physical(f Frame, total int, posOf []int) (Frame, []int) {
	key := make([]int, total)
	for i := range key {
		key[i] = -1
	}
	for r, p := range posOf {
		key[p] = r
	}
	g := Frame{N: total, Cols: make([]Col, len(f.Cols))}
	for ci, c := range f.Cols {
		cells := make([]Cell, total)
		for p := 0; p < total; p++ {
			if key[p] >= 0 {
				cells[p] = c.Cells[key[p]]
			} else {
				cells[p] = junkCell(c, p)
			}
		}
		g.Cols[ci] = Col{Name: c.Name, Kind: c.Kind, Cells: cells, EnumVals: c.EnumVals}
	}
	return g, key
}

// BuildShape creates a real frame that denotes f but whose physical index has
// the given shape. Callers should Observe the result rather than assume it
// (the derivation uses Sort/Slice/Filter/Drop, which are checked elsewhere).
func BuildShape(f Frame, shape int) qframe.QFrame {
	n := f.N
	names := f.Names()
	withKey := func(g Frame, key []int) qframe.QFrame {
		kc := Col{Name: keyCol, Kind: Int, Cells: make([]Cell, len(key))}
		for i, k := range key {
			kc.Cells[i] = I(k)
		}
		g.Cols = append(append([]Col(nil), g.Cols...), kc)
		return Build(g)
	}
	sel := func(q qframe.QFrame) qframe.QFrame {
		if len(names) == 0 {
			return q.Drop(keyCol)
		}
		return q.Select(names...)
	}
	switch shape {
	case ShapeReversed:
		pos := make([]int, n)
		for r := range pos {
			pos[r] = n - 1 - r
		}
		g, key := physical(f, n, pos)
		return sel(withKey(g, key).Sort(qframe.Order{Column: keyCol}))
	case ShapeSliced:
		pos := make([]int, n)
		for r := range pos {
			pos[r] = r + 2
		}
		g, _ := physical(f, n+3, pos)
		return Build(g).Slice(2, 2+n)
	case ShapeSparse:
		pos := make([]int, n)
		for r := range pos {
			pos[r] = 2*r + 1
		}
		g, key := physical(f, 2*n+1, pos)
		return sel(withKey(g, key).Filter(qframe.Filter{Column: keyCol, Comparator: ">=", Arg: 0}))
	case ShapePermuted:
		pos := make([]int, n)
		for r := range pos {
			pos[r] = (r*3 + 1) % maxi(n, 1)
		}
		// (r*3+1) mod n is a permutation only when gcd(3,n)=1; fall back to rotation
		if n%3 == 0 {
			for r := range pos {
				pos[r] = (r + 1) % maxi(n, 1)
			}
		}
		g, key := physical(f, n, pos)
		return sel(withKey(g, key).Sort(qframe.Order{Column: keyCol}))
	case ShapeMidSwap:
		pos := make([]int, n)
		for r := range pos {
			pos[r] = r
		}
		for i, j := 1, n-2; i < j; i, j = i+1, j-1 {
			pos[i], pos[j] = pos[j], pos[i]
		}
		g, key := physical(f, n, pos)
		return sel(withKey(g, key).Sort(qframe.Order{Column: keyCol}))
	case ShapeSparsePerm:
		pos := make([]int, n)
		for r := range pos {
			pos[r] = 2*(n-1-r) + 1
		}
		g, key := physical(f, 2*n+1, pos)
		return sel(withKey(g, key).Filter(qframe.Filter{Column: keyCol, Comparator: ">=", Arg: 0}).Sort(qframe.Order{Column: keyCol}))
	case ShapeEndsDense:
		// physical size 3n: row 0 at n, row n-1 at 2n-1, odd rows below n, the other even rows above 2n-1
		pos := make([]int, n)
		for r := range pos {
			switch {
			case r == 0:
				pos[r] = n
			case r == n-1:
				pos[r] = 2*n - 1
			case r%2 == 1:
				pos[r] = r - 1
			default:
				pos[r] = 2*n - 1 + r
			}
		}
		g, key := physical(f, 3*n, pos)
		return sel(withKey(g, key).Filter(qframe.Filter{Column: keyCol, Comparator: ">=", Arg: 0}).Sort(qframe.Order{Column: keyCol}))
	}
	return Build(f)
}

func maxi(a, b int) int {
	if a > b {
		return a
	}
	return b
}

// SortedStrings returns a sorted copy.
func SortedStrings(s []string) []string {
	r := append([]string(nil), s...)
	sort.Strings(r)
	return r
}

// AdoptMeta copies the declared enum value lists from src (by column name)
// into an observed frame; the public API exposes cells but not the declaration.
func (f *Frame) AdoptMeta(src Frame) {
	for i := range f.Cols {
		if f.Cols[i].Kind != Enum {
			continue
		}
		if sc, _, ok := src.Col(f.Cols[i].Name); ok && sc.Kind == Enum {
			f.Cols[i].EnumVals = sc.EnumVals
		}
	}
}

// BuildPermuted realises f with logical row r stored at physical position pos[r]
// (pos must be a permutation of 0..n-1); the logical order is restored by a
// Sort on a key column that is then projected away. As with BuildShape the
// caller should Observe the result.
func BuildPermuted(f Frame, pos []int) qframe.QFrame {
	g, key := physical(f, f.N, pos)
	kc := Col{Name: keyCol, Kind: Int, Cells: make([]Cell, len(key))}
	for i, k := range key {
		kc.Cells[i] = I(k)
	}
	g.Cols = append(append([]Col(nil), g.Cols...), kc)
	q := Build(g).Sort(qframe.Order{Column: keyCol})
	if len(f.Cols) == 0 {
		return q.Drop(keyCol)
	}
	return q.Select(f.Names()...)
}
