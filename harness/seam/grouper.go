//go:build verif

package verifseam

import (
	"github.com/tobgu/qframe/internal/grouper"
	"github.com/tobgu/qframe/internal/index"
)

const GrouperAvailable = true

type GroupStats = grouper.GroupStats

func GroupBy(ix []uint32, cmp []Comparable) ([][]uint32, GroupStats) {
	groups, stats := grouper.GroupBy(index.Int(ix), cmp)
	out := make([][]uint32, len(groups))
	for i, g := range groups {
		out[i] = []uint32(g)
	}
	return out, stats
}

func Distinct(ix []uint32, cmp []Comparable) []uint32 {
	return []uint32(grouper.Distinct(index.Int(ix), cmp))
}
