#!/bin/bash
# usage: tools/mutant_ov.sh <patch.diff> <tier> <Cxx>...
# Like mutant.sh but leaves /repo untouched: the patch is applied in a scratch worktree and the
# changed files are substituted at compile time with `go build -overlay` (so several can run at once).
set -u
PATCH="$(readlink -f "$1")"; TIER="$2"; shift 2
HERE="$(cd "$(dirname "$0")/.." && pwd)"
export GOFLAGS=-mod=mod GOPROXY=off GOSUMDB=off GOTOOLCHAIN=local
TAG="$(basename "$(dirname "$PATCH")")-$(basename "$PATCH" .diff)-$$"
SC=/tmp/scov-$TAG
git -C /repo worktree add -q --detach $SC HEAD || exit 2
trap 'git -C /repo worktree remove --force '$SC' 2>/dev/null; rm -rf /tmp/scbin-'$TAG EXIT
git -C $SC apply "$PATCH" || { echo "patch does not apply"; exit 2; }
mkdir -p /tmp/scbin-$TAG
EX=/tmp/scbin-$TAG/extra_overlay.txt
: > $EX
for f in $(git -C $SC diff --name-only; git -C $SC ls-files --others --exclude-standard); do
  echo " \"/repo/$f\": \"$SC/$f\"," >> $EX
done
VERIF_BIN_DIR=/tmp/scbin-$TAG VERIF_EXTRA_OVERLAY=$EX "$HERE/build.sh" || { echo "MUTANT $TAG: does not build"; exit 2; }
for id in "$@"; do
  if [ "$id" = "C11" ]; then VERIF_BIN_DIR=/tmp/scbin-$TAG VERIF_EXTRA_OVERLAY=$EX "$HERE/build.sh" race || exit 2; fi
  out="$(VERIF_DIR=$HERE VERIF_NO_EVIDENCE=1 VERIF_RACE_BIN=/tmp/scbin-$TAG/qfmc-race /tmp/scbin-$TAG/qfmc run "$id" "$TIER" 2>&1)"; rc=$?
  v=$(echo "$out" | grep -c '^VIOLATION')
  echo "MUTANT $(basename "$(dirname "$PATCH")")/$(basename "$PATCH") $id $TIER exit=$rc violation_lines=$v"
  echo "$out" | grep -A2 '^VIOLATION' | head -6 | cut -c1-220
  echo "$out" | grep 'HARNESS-ERROR' | head -2 | cut -c1-300
done
