//go:build verif

package verifseam

import "github.com/tobgu/qframe/internal/ryu"

const RyuAvailable = true

func AppendFloat64f(b []byte, f float64) []byte { return ryu.AppendFloat64f(b, f) }
