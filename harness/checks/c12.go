package checks

import (
	"bufio"
	"bytes"
	"errors"
	"fmt"
	"io"
	"math"
	"strconv"
	"strings"

	"github.com/tobgu/qframe"
	"github.com/tobgu/qframe/config/csv"
	seam "github.com/tobgu/qframe/verifseam"

	"verif/harness/core"
	"verif/harness/model"
)

// C12 — ReadCSV parses RFC 4180 input faithfully for any fragmentation of the stream.

// schedReader delivers doc in the chunks given by cuts (ascending byte offsets
// strictly inside the document); each Read returns at most one chunk (less if
// the caller's buffer is smaller). eofWithData: the last chunk is returned
// together with io.EOF. failAt >= 0: once failAt bytes have been delivered the
// next Read returns (0, errInjected) (used by C15).
type schedReader struct {
	doc         []byte
	cuts        []int
	pos         int
	eofWithData bool
	failAt      int
	failWith    int   // bytes delivered together with the error
	failErr     error // the error to fail with (nil: errInjected)
	reads       int
	maxChunk    int
	// faultReturned: the injected error has been returned to the caller at least once
	faultReturned bool
}

var errInjected = errors.New("injected fault")

func (r *schedReader) Read(p []byte) (int, error) {
	r.reads++
	if len(p) == 0 {
		return 0, nil
	}
	end := len(r.doc)
	for _, c := range r.cuts {
		if c > r.pos {
			end = c
			break
		}
	}
	if r.maxChunk > 0 && end-r.pos > r.maxChunk {
		end = r.pos + r.maxChunk
	}
	if r.failAt >= 0 && end >= r.failAt {
		if r.pos >= r.failAt-r.failWith {
			n := copy(p, r.doc[r.pos:r.failAt])
			r.pos += n
			if r.pos >= r.failAt {
				r.faultReturned = true
				if r.failErr != nil {
					return n, r.failErr
				}
				return n, errInjected
			}
			return n, nil
		}
		end = r.failAt - r.failWith
	}
	if r.pos >= len(r.doc) {
		return 0, io.EOF
	}
	n := copy(p, r.doc[r.pos:end])
	r.pos += n
	if r.pos >= len(r.doc) && r.eofWithData {
		return n, io.EOF
	}
	return n, nil
}

type csvConf struct {
	Delim     string              `json:"delim,omitempty"`
	DelimByte int                 `json:"delim_byte,omitempty"` // any byte value (JSON cannot carry bytes >= 0x80 in Delim)
	EmptyNull bool                `json:"empty_null,omitempty"`
	IgnoreEmp bool                `json:"ignore_empty,omitempty"`
	Headers   []string            `json:"headers,omitempty"`
	Types     map[string]string   `json:"types,omitempty"`
	EnumVals  map[string][]string `json:"enum_vals,omitempty"`
	RenameDup bool                `json:"rename_dup,omitempty"`
	Alias     string              `json:"alias,omitempty"`
	// AliasFirst: MissingColumnNameAlias is given before RenameDuplicateColumns (the order of options must not matter)
	AliasFirst bool `json:"alias_first,omitempty"`
	Hint       int  `json:"hint,omitempty"`
}

func (c csvConf) delim() byte {
	if c.DelimByte > 0 {
		return byte(c.DelimByte)
	}
	if c.Delim == "" {
		return ','
	}
	return c.Delim[0]
}

func (c csvConf) funcs() []csv.ConfigFunc {
	var f []csv.ConfigFunc
	if c.Delim != "" || c.DelimByte > 0 {
		f = append(f, csv.Delimiter(c.delim()))
	}
	if c.EmptyNull {
		f = append(f, csv.EmptyNull(true))
	}
	if c.IgnoreEmp {
		f = append(f, csv.IgnoreEmptyLines(true))
	}
	if c.Headers != nil {
		f = append(f, csv.Headers(c.Headers))
	}
	if c.Types != nil {
		f = append(f, csv.Types(c.Types))
	}
	if c.EnumVals != nil {
		f = append(f, csv.EnumValues(c.EnumVals))
	}
	if c.Alias != "" && c.AliasFirst {
		f = append(f, csv.MissingColumnNameAlias(c.Alias))
	}
	if c.RenameDup {
		f = append(f, csv.RenameDuplicateColumns(true))
	}
	if c.Alias != "" && !c.AliasFirst {
		f = append(f, csv.MissingColumnNameAlias(c.Alias))
	}
	if c.Hint != 0 {
		f = append(f, csv.RowCountHint(c.Hint))
	}
	return f
}

type csvCase struct {
	Doc         string  `json:"doc"`
	Conf        csvConf `json:"conf"`
	Cuts        []int   `json:"cuts,omitempty"`
	Chunk       int     `json:"chunk,omitempty"` // uniform reader: at most Chunk bytes per read
	EOFWithData bool    `json:"eof_with_data,omitempty"`
	// Cap > 0: run the scanner seam with this initial buffer capacity instead of ReadCSV
	Cap int `json:"cap,omitempty"`
	// Gen: regenerate Doc from a generator name (long families), Doc then holds the parameters
	Gen string `json:"gen,omitempty"`
}

// refCSV computes the frame the document denotes under the configuration.
func refCSV(doc []byte, conf csvConf, crlfIsLF bool) model.Frame {
	rej := func(f string, a ...interface{}) model.Frame {
		return model.Frame{Err: true, ErrText: fmt.Sprintf(f, a...)}
	}
	recs, err := model.ParseCSV(doc, conf.delim(), crlfIsLF)
	if err != nil {
		return rej("malformed: %v", err)
	}
	headers := conf.Headers
	if len(headers) == 0 {
		if len(recs) == 0 {
			return rej("no header")
		}
		headers = recs[0]
		recs = recs[1:]
	}
	headers = append([]string(nil), headers...)
	var rows [][]string
	for _, r := range recs {
		empty := len(r) == 1 && r[0] == ""
		if empty && conf.IgnoreEmp {
			continue
		}
		if len(r) != len(headers) {
			return rej("wrong number of columns")
		}
		rows = append(rows, r)
	}
	if conf.Alias != "" {
		for i, h := range headers {
			if h == "" {
				headers[i] = conf.Alias
			}
		}
	}
	if conf.RenameDup {
		seen := map[string]int{}
		for i, h := range headers {
			if _, ok := seen[h]; !ok {
				seen[h] = i
			}
		}
		for i, h := range headers {
			if first := seen[h]; first != i {
				for n := 0; ; n++ {
					cand := h + strconv.Itoa(n)
					if _, ok := seen[cand]; !ok {
						headers[i] = cand
						seen[cand] = i
						break
					}
				}
			}
		}
	}
	seen := map[string]bool{}
	for _, h := range headers {
		if seen[h] {
			return rej("duplicate column %q", h)
		}
		seen[h] = true
		if !checkNameOK(h) {
			return rej("illegal column name %q", h)
		}
	}
	for name := range conf.EnumVals {
		if conf.Types[name] != "enum" || !seen[name] {
			return rej("enum values for non enum column")
		}
	}
	f := model.Frame{N: len(rows)}
	for ci, h := range headers {
		cells := make([]string, len(rows))
		for ri, r := range rows {
			cells[ri] = r[ci]
		}
		col, err := inferColumn(h, cells, conf)
		if err != nil {
			return rej("column %s: %v", h, err)
		}
		f.Cols = append(f.Cols, col)
	}
	return f
}

func inferColumn(name string, cells []string, conf csvConf) (model.Col, error) {
	typ := conf.Types[name]
	col := model.Col{Name: name}
	if len(cells) == 0 && typ == "" {
		col.Kind = model.Undef
		return col, nil
	}
	if typ == "int" || typ == "" {
		ok := true
		var out []model.Cell
		for _, c := range cells {
			v, err := strconv.Atoi(c)
			if err != nil {
				ok = false
				break
			}
			out = append(out, model.I(v))
		}
		if ok {
			col.Kind, col.Cells = model.Int, out
			return col, nil
		}
		if typ == "int" {
			return col, fmt.Errorf("not an int column")
		}
	}
	if typ == "float" || typ == "" {
		ok := true
		var out []model.Cell
		for _, c := range cells {
			if c == "" {
				out = append(out, model.NaN())
				continue
			}
			v, err := strconv.ParseFloat(c, 64)
			if err != nil {
				ok = false
				break
			}
			out = append(out, model.F(v))
		}
		if ok {
			col.Kind, col.Cells = model.Float, out
			return col, nil
		}
		if typ == "float" {
			return col, fmt.Errorf("not a float column")
		}
	}
	if typ == "bool" || typ == "" {
		ok := true
		var out []model.Cell
		for _, c := range cells {
			v, err := strconv.ParseBool(c)
			if err != nil {
				ok = false
				break
			}
			out = append(out, model.B(v))
		}
		if ok {
			col.Kind, col.Cells = model.Bool, out
			return col, nil
		}
		if typ == "bool" {
			return col, fmt.Errorf("not a bool column")
		}
	}
	if typ == "string" || typ == "" || typ == "enum" {
		col.Kind = model.String
		if typ == "enum" {
			col.Kind = model.Enum
			col.EnumVals = conf.EnumVals[name]
		}
		for _, c := range cells {
			if c == "" && conf.EmptyNull {
				col.Cells = append(col.Cells, model.Null())
				continue
			}
			if typ == "enum" && len(col.EnumVals) > 0 && enumRank(col, c) < 0 {
				return col, fmt.Errorf("undeclared enum value %q", c)
			}
			col.Cells = append(col.Cells, model.S(c))
		}
		if typ == "enum" {
			// an enum column holds at most 255 distinct values
			distinct := map[string]bool{}
			for _, c := range col.Cells {
				if !c.Null {
					distinct[c.S] = true
				}
			}
			if len(distinct) > 255 {
				return col, fmt.Errorf("enum cardinality exceeded: %d distinct values", len(distinct))
			}
		}
		return col, nil
	}
	return col, fmt.Errorf("unknown type %q", typ)
}

func (c csvCase) doc() []byte {
	if c.Gen != "" {
		return genDoc(c.Gen, c.Doc)
	}
	return []byte(c.Doc)
}

func (c csvCase) reader(doc []byte) *schedReader {
	return &schedReader{doc: doc, cuts: c.Cuts, eofWithData: c.EOFWithData, failAt: -1, maxChunk: c.Chunk}
}

// readCSVWith reads doc with the given option values. The same option values are deliberately
// reused for the several reads of one case (single read, fragmented read): options are values a
// caller may keep and pass again, a read must not consume them.
func readCSVWith(doc []byte, c csvCase, opts []csv.ConfigFunc) model.Frame {
	return model.Observe(qframe.ReadCSV(c.reader(doc), opts...))
}

// frameDiffLoose: like model.Diff but an Undef column matches any empty column type.
func csvDiff(want, got model.Frame) string {
	if want.Err != got.Err {
		return model.Diff(want, got)
	}
	if !want.Err && len(want.Cols) == len(got.Cols) {
		w := want.Clone()
		for i := range w.Cols {
			if w.Cols[i].Kind == model.Undef && len(got.Cols[i].Cells) == 0 {
				w.Cols[i].Kind = got.Cols[i].Kind
			}
		}
		return model.Diff(w, got)
	}
	return model.Diff(want, got)
}

func runCSVCase(c csvCase) *core.Failure {
	doc := c.doc()
	if c.Cap > 0 {
		return runCSVSeam(c, doc)
	}
	opts := c.Conf.funcs()
	single := c
	single.Cuts, single.Chunk, single.EOFWithData = nil, 0, false
	base := readCSVWith(doc, single, opts)
	got := readCSVWith(doc, c, opts)
	show := func(d []byte) string {
		if len(d) > 120 {
			return fmt.Sprintf("%q...(%d bytes)", d[:120], len(d))
		}
		return fmt.Sprintf("%q", d)
	}
	sched := fmt.Sprintf("cuts=%v chunk=%d eofWithData=%v", c.Cuts, c.Chunk, c.EOFWithData)
	if d := model.Diff(base, got); d != "" && !(base.Err && got.Err) {
		fail := core.Failf("ReadCSV(%s) conf=%+v depends on read fragmentation (%s): %s\n single read: %s\n fragmented:  %s", show(doc), c.Conf, sched, d, base, got)
		return fail
	}
	want := refCSV(doc, c.Conf, true)
	d := csvDiff(want, got)
	if d != "" && bytes.Contains(doc, []byte("\r\n")) {
		// a CRLF inside a quoted field: both the verbatim reading (RFC 4180) and the LF reading (encoding/csv) are accepted
		if w2 := refCSV(doc, c.Conf, false); csvDiff(w2, got) == "" {
			d = ""
		}
	}
	if d != "" {
		why := ""
		if want.Err {
			why = " (reference: " + want.ErrText + ")"
		}
		return core.Failf("ReadCSV(%s) conf=%+v (%s): %s%s\n want: %s\n  got: %s", show(doc), c.Conf, sched, d, why, want, got)
	}
	// the standard library's readers, handed over AFTER a preamble has been consumed from them: ReadCSV reads from
	// where the reader stands (whether or not the reader could be rewound)
	if c.Cuts == nil && c.Chunk == 0 && !c.EOFWithData && len(doc) < 200 {
		pre := []byte("# preamble, 1, 2\n\xef\xbb\xbf")
		whole := append(append([]byte{}, pre...), doc...)
		skip := func(r io.Reader) io.Reader {
			if _, err := io.ReadFull(r, make([]byte, len(pre))); err != nil {
				panic(err)
			}
			return r
		}
		br := bytes.NewReader(whole)
		_, _ = br.Seek(int64(len(pre)), io.SeekStart)
		readers := map[string]io.Reader{
			"bytes.Reader after Seek":   br,
			"bytes.Reader after Read":   skip(bytes.NewReader(whole)),
			"strings.Reader after Read": skip(strings.NewReader(string(whole))),
			"bytes.Buffer after Read":   skip(bytes.NewBuffer(append([]byte{}, whole...))),
			"bufio.Reader after Read":   skip(bufio.NewReaderSize(bytes.NewReader(whole), 16)),
		}
		for name, r := range readers {
			g := model.Observe(qframe.ReadCSV(r, opts...))
			if d := model.Diff(base, g); d != "" && !(base.Err && g.Err) {
				return core.Failf("ReadCSV(%s) conf=%+v from a %s of a preamble: %s\n from the plain document: %s\n from this reader:       %s", show(doc), c.Conf, name, d, base, g)
			}
		}
	}
	return nil
}

func runCSVSeam(c csvCase, doc []byte) *core.Failure {
	if !seam.CSVAvailable {
		return nil // the internal scanner API changed: the buffer-capacity seam is skipped (noted in the evidence)
	}
	want, err := model.ParseCSV(doc, c.Conf.delim(), true)
	if err != nil {
		return core.Failf("reference parser rejects the generated document %q: %v", doc, err)
	}
	want2, _ := model.ParseCSV(doc, c.Conf.delim(), false)
	rd := seam.NewCSVReaderCap(c.reader(doc), c.Conf.delim(), c.Cap)
	var got [][]string
	for rd.Next() {
		var row []string
		for _, f := range rd.Fields() {
			row = append(row, string(f))
		}
		got = append(got, row)
		if len(got) > len(want)+3 {
			break
		}
	}
	if e := rd.Err(); e != nil {
		return core.Failf("scanner(cap=%d) on %q cuts=%v: error %v", c.Cap, doc, c.Cuts, e)
	}
	// a trailing empty line at the very end is not a record for the scanner ("blank last line")
	if fmt.Sprintf("%q", got) != fmt.Sprintf("%q", want) && fmt.Sprintf("%q", got) != fmt.Sprintf("%q", want2) {
		return core.Failf("scanner(cap=%d) on %q cuts=%v chunk=%d eofWithData=%v:\n got %q\nwant %q", c.Cap, doc, c.Cuts, c.Chunk, c.EOFWithData, got, want)
	}
	return nil
}

// ---- document generation ---------------------------------------------------------

type csvCell struct{ val, text string }

func csvCellAlphabet(delim byte, full bool) []csvCell {
	d := string(delim)
	a := []csvCell{
		{"", ``}, {"a", `a`}, {"1", `1`}, {"1.5", `1.5`}, {"true", `true`},
		{"", `""`}, {`a"b`, `"a""b"`}, {"a" + d + "b", `"a` + d + `b"`}, {"a\nb", "\"a\nb\""},
	}
	if full {
		a = append(a, csvCell{"a", `"a"`}, csvCell{`"b`, `"""b"`}, csvCell{"a\nb", "\"a\r\nb\""}, csvCell{`""`, `""""""`}, csvCell{"b\n", "\"b\n\""})
	}
	return a
}

// genDoc regenerates the long families from their parameters.
func genDoc(gen, param string) []byte {
	p := strings.Split(param, ",")
	atoi := func(i int) int { n, _ := strconv.Atoi(p[i]); return n }
	switch gen {
	case "longfield":
		// header x,y; one row: long field (quoted or not) of length n with an escaped quote at offset q (or -1), then ",z"
		n, q, quoted := atoi(0), atoi(1), atoi(2) == 1
		var sb strings.Builder
		sb.WriteString("x,y\n")
		body := make([]byte, n)
		for i := range body {
			body[i] = byte('a' + i%26)
		}
		if quoted {
			sb.WriteByte('"')
			for i, b := range body {
				if i == q {
					sb.WriteString(`""`)
				}
				sb.WriteByte(b)
			}
			sb.WriteByte('"')
		} else {
			sb.Write(body)
		}
		sb.WriteString(",z\n")
		return []byte(sb.String())
	case "longrow":
		// header x,y; 3 short rows; one row whose first field has n bytes (quoted or not); then m short rows
		n, quoted, m := atoi(0), atoi(1) == 1, atoi(2)
		var sb strings.Builder
		sb.WriteString("x,y\n")
		for i := 0; i < 3; i++ {
			fmt.Fprintf(&sb, "s%d,%d\n", i, i)
		}
		body := make([]byte, n)
		for i := range body {
			body[i] = byte('a' + i%26)
		}
		if quoted {
			sb.WriteByte('"')
			sb.Write(body[:n/2])
			sb.WriteString(`""`)
			sb.Write(body[n/2:])
			sb.WriteByte('"')
		} else {
			sb.Write(body)
		}
		sb.WriteString(",3\n")
		for i := 0; i < m; i++ {
			fmt.Fprintf(&sb, "t%d,%d\n", i, 4+i)
		}
		return []byte(sb.String())
	case "bytes":
		// documents with bytes that are not valid UTF-8; 'D' in the template stands for the delimiter byte atoi(0)
		tmpl := []string{
			"xDy\nRen\xe9D1\n\xfcberD2\n",
			"aDb\n\xff\xfeD\x80\n\xc3D\xa9\n",
			"nDm\n1D2\n3D4\n",
			"qDr\n\"a\xe9Db\"D\xe9\n\"\"D\"\xff\n\"\n",
			"sDtDu\r\n\xa7D\xa7\xa7D\r\n",
		}[atoi(1)]
		return []byte(strings.ReplaceAll(tmpl, "D", string([]byte{byte(atoi(0))})))
	case "enumcard":
		// one column x with k distinct values, every value once and then every value again
		k := atoi(0)
		var sb strings.Builder
		sb.WriteString("x\n")
		for pass := 0; pass < 2; pass++ {
			for i := 0; i < k; i++ {
				fmt.Fprintf(&sb, "v%03d\n", i)
			}
		}
		return []byte(sb.String())
	case "rows":
		// n rows of "<i>,v<i>" below header a,b
		n := atoi(0)
		var sb strings.Builder
		sb.WriteString("a,b\n")
		for i := 0; i < n; i++ {
			fmt.Fprintf(&sb, "%d,v%d\n", i, i)
		}
		return []byte(sb.String())
	}
	return nil
}

func forEachCutSet(L, maxCuts int, f func(cuts []int)) {
	f(nil)
	if maxCuts >= 1 {
		for a := 1; a < L; a++ {
			f([]int{a})
			if maxCuts >= 2 {
				for b := a + 1; b < L; b++ {
					f([]int{a, b})
					if maxCuts >= 3 {
						for c := b + 1; c < L; c++ {
							f([]int{a, b, c})
						}
					}
				}
			}
		}
	}
}

func forEachFragmentation(L int, f func(cuts []int)) {
	if L <= 1 {
		f(nil)
		return
	}
	for mask := 0; mask < 1<<(L-1); mask++ {
		var cuts []int
		for b := 0; b < L-1; b++ {
			if mask&(1<<b) != 0 {
				cuts = append(cuts, b+1)
			}
		}
		f(cuts)
	}
}

func c12Run(ctx *core.Ctx) {
	if !seam.CSVAvailable {
		ctx.Note("the seam into internal/fastcsv does not compile against this tree (its internal API changed): the buffer-capacity layer is skipped, ReadCSV layers run")
	}
	exec := func(c csvCase, outcome string, nontrivial bool) {
		ctx.Exec(c, func() *core.Failure { return runCSVCase(c) })
		ctx.Outcome(outcome)
		if nontrivial {
			ctx.Nontrivial(fmt.Sprintf("%s|%v|%d|%v|%d|%+v", c.Doc, c.Cuts, c.Chunk, c.EOFWithData, c.Cap, c.Conf))
		}
		if ctx.WantSample() && ctx.Index()%50021 == 77 {
			ctx.Sample(c)
		}
	}
	full := !ctx.Quick()
	// ---- part 1: grammar documents x bounded cut sets + uniform readers, default configuration
	delims := []byte{','}
	if full {
		delims = []byte{',', ';', '\t', '|'}
	}
	maxCuts := 2
	if full {
		maxCuts = 3
	}
	for _, delim := range delims {
		alpha := csvCellAlphabet(delim, full && delim == ',')
		if delim != ',' {
			alpha = csvCellAlphabet(delim, false)
		}
		conf := csvConf{}
		if delim != ',' {
			conf.Delim = string(delim)
		}
		for nc := 1; nc <= 2; nc++ {
			for nr := 0; nr <= 2; nr++ {
				forEachSeq(nc*nr, len(alpha), func(pick []int) {
					for _, eol := range []string{"\n", "\r\n"} {
						for _, final := range []bool{true, false} {
							var sb strings.Builder
							hdr := []string{"x", "y"}[:nc]
							sb.WriteString(strings.Join(hdr, string(delim)))
							quotedCells := false
							for r := 0; r < nr; r++ {
								sb.WriteString(eol)
								for cidx := 0; cidx < nc; cidx++ {
									if cidx > 0 {
										sb.WriteByte(delim)
									}
									cell := alpha[pick[r*nc+cidx]]
									sb.WriteString(cell.text)
									quotedCells = quotedCells || strings.HasPrefix(cell.text, `"`)
								}
							}
							if final {
								sb.WriteString(eol)
							}
							doc := sb.String()
							// a single-column document whose last row is an unquoted empty cell without
							// final line break is indistinguishable from the same document without that row
							if nc == 1 && nr > 0 && !final && alpha[pick[(nr-1)*nc]].text == "" {
								continue
							}
							L := len(doc)
							mc := maxCuts
							if !quotedCells && mc > 1 && !full {
								mc = 1
							}
							forEachCutSet(L, mc, func(cuts []int) {
								for _, ewd := range []bool{false, true} {
									if !ctx.Mine() {
										continue
									}
									exec(csvCase{Doc: doc, Conf: conf, Cuts: append([]int(nil), cuts...), EOFWithData: ewd}, "grammar/cuts", quotedCells || nr >= 2)
								}
							})
							for k := 1; k <= L && k <= 7; k++ {
								if ctx.Mine() {
									exec(csvCase{Doc: doc, Conf: conf, Chunk: k}, "grammar/uniform", quotedCells || nr >= 2)
								}
							}
						}
					}
				})
			}
		}
	}
	// ---- part 2: all fragmentations of tiny documents (no header row, Headers option), through ReadCSV and through the scanner seam with tiny buffers
	tinyAlpha := csvCellAlphabet(',', true)
	if full {
		tinyAlpha = append(tinyAlpha, csvCell{" a ", " a "}, csvCell{"\u00e9", "\u00e9"}, csvCell{",", `","`}, csvCell{"\"", `""""`})
	}
	maxL := 11
	if full {
		maxL = 13
	}
	caps := []int{1, 2, 3, 4, 8}
	seenDocs := map[string]bool{}
	tiny := func(doc string, headers []string) {
		if len(doc) == 0 || len(doc) > maxL || seenDocs[doc+"|"+strings.Join(headers, ",")] {
			return
		}
		seenDocs[doc+"|"+strings.Join(headers, ",")] = true
		forEachFragmentation(len(doc), func(cuts []int) {
			for _, ewd := range []bool{false, true} {
				if ctx.Mine() {
					exec(csvCase{Doc: doc, Conf: csvConf{Headers: headers}, Cuts: append([]int(nil), cuts...), EOFWithData: ewd}, "tiny/all-fragmentations", true)
				}
				for _, cp := range caps {
					if ctx.Mine() {
						exec(csvCase{Doc: doc, Conf: csvConf{}, Cuts: append([]int(nil), cuts...), EOFWithData: ewd, Cap: cp}, "tiny/seam-cap", true)
					}
				}
			}
		})
	}
	for nr := 1; nr <= 3; nr++ {
		forEachSeq(nr, len(tinyAlpha), func(pick []int) {
			for _, eol := range []string{"\n", "\r\n"} {
				for _, final := range []bool{true, false} {
					var parts []string
					for _, p := range pick {
						parts = append(parts, tinyAlpha[p].text)
					}
					doc := strings.Join(parts, eol)
					if final {
						doc += eol
					} else if tinyAlpha[pick[nr-1]].text == "" {
						continue
					}
					tiny(doc, []string{"x"})
				}
			}
		})
	}
	for nr := 1; nr <= 2; nr++ {
		forEachSeq(2*nr, len(tinyAlpha), func(pick []int) {
			for _, final := range []bool{true, false} {
				var rows []string
				for r := 0; r < nr; r++ {
					rows = append(rows, tinyAlpha[pick[2*r]].text+","+tinyAlpha[pick[2*r+1]].text)
				}
				doc := strings.Join(rows, "\n")
				if final {
					doc += "\n"
				}
				tiny(doc, []string{"x", "y"})
			}
		})
	}
	// ---- part 3: configurations (single read and one-byte reads)
	c12Configs(ctx, exec)
	// ---- part 4: long fields across the 1024-byte buffer and its 2n+1 doublings
	lens := []int{1017, 1018, 1019, 1020, 1021, 1022, 1023, 1024, 1025, 2043, 2044, 2045, 2046, 2047, 2048, 2049, 2050}
	if full {
		lens = append(lens, 1015, 1016, 1026, 1027, 2042, 2051, 4095, 4096, 4097, 4098, 4099, 4100)
	}
	for _, n := range lens {
		for _, quoted := range []int{0, 1} {
			qs := []int{-1}
			if quoted == 1 {
				for q := n - 8; q < n; q++ {
					qs = append(qs, q)
				}
				for _, base := range []int{1024, 2049} {
					for q := base - 12; q <= base+2; q++ {
						if q > 0 && q < n {
							qs = append(qs, q)
						}
					}
				}
			}
			for _, q := range qs {
				param := fmt.Sprintf("%d,%d,%d", n, q, quoted)
				L := len(genDoc("longfield", param))
				// cut points around the buffer boundaries, and uniform readers
				var cutSets [][]int
				cutSets = append(cutSets, nil)
				for _, b := range []int{1024, 2049} {
					for c := b - 3; c <= b+3; c++ {
						if c > 0 && c < L {
							cutSets = append(cutSets, []int{c})
							if c+1 < L {
								cutSets = append(cutSets, []int{c, c + 1})
							}
						}
					}
				}
				for c := L - 6; c < L; c++ {
					if c > 0 {
						cutSets = append(cutSets, []int{c})
					}
				}
				for _, cuts := range cutSets {
					if ctx.Mine() {
						exec(csvCase{Gen: "longfield", Doc: param, Cuts: cuts}, "long/cuts", true)
					}
				}
				for _, k := range []int{1, 2, 3, 7, 512, 1023, 1024, 1025} {
					if ctx.Mine() {
						exec(csvCase{Gen: "longfield", Doc: param, Chunk: k}, "long/uniform", true)
					}
				}
			}
		}
	}
	// ---- part 4b: one very long row between short ones (the read buffer has to grow several times,
	// beyond 64 KiB, and is then used for many more rows)
	for _, n := range []int{5000, 33000, 40000, 70000, 140000} {
		for quoted := 0; quoted <= 1; quoted++ {
			for _, m := range []int{0, 1, 40, 400} {
				for _, k := range []int{0, 1000, 4096, 65536} {
					if ctx.Mine() {
						exec(csvCase{Gen: "longrow", Doc: fmt.Sprintf("%d,%d,%d", n, quoted, m), Chunk: k}, "longrow", true)
					}
				}
			}
		}
	}
	// ---- part 4d: any single-byte delimiter (control characters, DEL, bytes >= 0x80) with cells that are not valid UTF-8
	for _, d := range []int{';', '\t', '|', 0x01, 0x7f, 0x80, 0xa7, 0xe9, 0xfe, 0xff} {
		for v := 0; v < 5; v++ {
			for _, k := range []int{0, 1, 2, 3, 5} {
				if ctx.Mine() {
					exec(csvCase{Gen: "bytes", Doc: fmt.Sprintf("%d,%d", d, v), Conf: csvConf{DelimByte: d}, Chunk: k}, "delimiters-and-bytes", true)
				}
			}
		}
	}
	// ---- part 4e: EVERY byte value as delimiter (NUL included; DelimByte 256 stands for byte 0), on the plain document
	for d := 0; d < 256; d++ {
		if strings.ContainsRune("\"\n\rnm1234", rune(d)) && d < 0x80 {
			continue
		}
		db := d
		if d == 0 {
			db = 256
		}
		for _, k := range []int{0, 1, 3} {
			if ctx.Mine() {
				exec(csvCase{Gen: "bytes", Doc: fmt.Sprintf("%d,2", db), Conf: csvConf{DelimByte: db}, Chunk: k}, "every-delimiter-byte", true)
			}
		}
	}
	// ---- part 4c: enum columns at the cardinality limit (255 distinct values fit, more must be an error)
	for _, k := range []int{254, 255, 256, 257} {
		for _, chunk := range []int{0, 7} {
			if ctx.Mine() {
				exec(csvCase{Gen: "enumcard", Doc: strconv.Itoa(k), Conf: csvConf{Types: map[string]string{"x": "enum"}}, Chunk: chunk}, "enumcard", true)
			}
		}
	}
	// ---- part 5: RowCountHint resize
	for _, n := range []int{999, 1000, 1001, 1002} {
		for _, hint := range []int{0, 2000, 2001, 5000} {
			for _, k := range []int{0, 1, 4096} {
				if ctx.Mine() {
					exec(csvCase{Gen: "rows", Doc: strconv.Itoa(n), Conf: csvConf{Hint: hint}, Chunk: k}, "hint", true)
				}
			}
		}
	}
}

func c12Configs(ctx *core.Ctx, exec func(csvCase, string, bool)) {
	docs := []string{
		"x,y\n1,a\n2,b\n", "x,y\n1,\n,b\n", "x,y\n\n1,a\n\n", "x\n\na\n\n", "x\n1\n\n2\n", "x,x\n1,2\n", "x,,x\n1,2,3\n", ",\n1,2\n", "x,y\n", "x,y", "x\n\"\"\n",
		"a,a,a0\n1,2,3\n", "x0,x,x,x1\n1,2,3,4\n", "x,x,x,x0,x1\n1,2,3,4,5\n",
		"n\n9223372036854775807\n-9223372036854775808\n", "n\n9223372036854775808\n1\n", "n\n9999999999999999999\n", "n\n-9223372036854775809\n", "n\n+5\n-0\n007\n", "n\n1e3\n0x10\n1_0\n",
		"x,,y,\n1,2,3,4\n", ",\n1,2\n",
		"x,y\r\n\r\n1,a\r\n\r\n2,b\r\n", "x\r\n\r\na\r\n\r\n", "x,y\r\n1,a\r\n\r\n",
		"v\n-0\n1.5\n", "v\n1.5\n-0\n", "v\n-00\n0.5\n-0\n", "v\n0.9222122589217269\n9.836716240198795\n", "v\n0\n-0\n",
		"b\nT\nf\n0\n", "b\nTrue\nFALSE\n", "b\nyes\nno\n", "v\n inf\n", "v\nInf\n-inf\nNaN\n", "v\n1.5 \n",
		"x,y\n1.5,true\n,false\n", "x,y\ntrue,1\n1,0\n", "x,y\n1,\"a\nb\"\n2,\"c\"\"d\"\n", "x,y\r\n1,a\r\n", "x,y\n1,2,3\n", "x,y\n1\n", "e,f\na,1\nb,2\na,\n",
	}
	// (x0 / m are the names a renamed duplicate and an aliased empty header get: options must be looked up by the FINAL name)
	typesAlt := []map[string]string{{"x0": "string"}, {"m": "string", "x": "float"}, {"x0": "enum", "x": "string"}, nil, {"x": "int"}, {"x": "float"}, {"x": "bool"}, {"x": "string"}, {"x": "enum"}, {"x": "string", "y": "enum"}, {"e": "enum", "f": "float"}, {"y": "nope"}, {"zz": "int"}, {"n": "int", "b": "bool", "v": "float"}, {"n": "float", "b": "string", "v": "string"}}
	enumAlt := []map[string][]string{{"x": {}}, {"x0": {"1", "2", "3"}}, nil, {"x": {"a", "b", "1", "2", ""}}, {"x": {"q"}}, {"e": {"b", "a"}}, {"y": {"a"}}, {"zz": {"a"}}}
	headersAlt := [][]string{nil, {"p", "q"}, {"p"}}
	for _, doc := range docs {
		for _, en := range []bool{false, true} {
			for _, ig := range []bool{false, true} {
				for _, rd := range []bool{false, true} {
					for _, alias := range []string{"", "m", "x"} {
						for _, ty := range typesAlt {
							for _, ev := range enumAlt {
								for _, hd := range headersAlt {
									if strings.Contains(doc, "\"\"\n") && ig {
										continue // whether a quoted empty field is an "empty line" is not specified
									}
									for _, chunk := range []int{0, 1} {
										if !ctx.Mine() {
											continue
										}
										conf := csvConf{EmptyNull: en, IgnoreEmp: ig, RenameDup: rd, Alias: alias, Types: ty, EnumVals: ev, Headers: hd, AliasFirst: alias != "" && rd && chunk == 1}
										exec(csvCase{Doc: doc, Conf: conf, Chunk: chunk}, "config", true)
									}
								}
							}
						}
					}
				}
			}
		}
	}
}

func init() {
	core.Register(&core.Check{
		ID:    "C12",
		Level: "model_checking",
		Rule: "case = (document, configuration, read schedule). Documents are generated from the RFC 4180 grammar (1-2 columns, 0-2 data rows below the header, every cell from a 9-14 element alphabet of unquoted/quoted/escaped cells, LF or CRLF, final line break or not, 1-4 delimiters); " +
			"read schedules are enumerated by deviations from the default single read: all schedules with <= 2 (quick) / 3 (thorough) cut points, uniform k-byte readers, EOF with or after the last data; for documents of <= 11 (13) bytes ALL 2^(L-1) fragmentations, through ReadCSV and through the real scanner with initial buffer capacity 1,2,3,4,8 (overlay seam); " +
			"configuration product (EmptyNull, IgnoreEmptyLines, Headers, Types, EnumValues, RenameDuplicateColumns, MissingColumnNameAlias) on 43 documents (incl. duplicate headers next to genuine x0/x1 headers and numeric edge cells: 19-digit integers around MaxInt64, signs, exponents, spellings of booleans, Inf/NaN); long fields 1015..4100 bytes with escaped quotes around the buffer boundaries; one row of 5000..140000 bytes followed by 0..400 short rows; enum columns with 254..257 distinct values; 10 delimiter bytes (control characters, DEL, >= 0x80) with cells that are not valid UTF-8; RowCountHint across the 1000-row resize. " +
			"Oracles: result(schedule) = result(single read); result = reference parser + type inference. Non-trivial = quoted cells or >= 2 data rows, and every tiny/long/config case; distinct by case content.",
		Assumptions: []string{
			"reference parser model/csv.go (state machine over the whole document) and type inference by strconv.Atoi/ParseFloat/ParseBool in that order; a CRLF inside a quoted field may be returned verbatim (RFC 4180) or as LF (encoding/csv); bare CR is not generated",
			"zero-byte reads without error are not generated; documents are well-formed; a final unquoted empty single-column row without line break is not generated (not representable)",
			"whether a quoted empty field counts as an empty line for IgnoreEmptyLines is left open",
		},
		Bound: map[string]string{
			"quick":    "delimiter ','; 9-cell alphabet; <= 2 cut points (1 for documents without quoted cells); tiny documents <= 11 bytes with all fragmentations",
			"thorough": "4 delimiters; 14-cell alphabet for ','; <= 3 cut points; tiny documents <= 13 bytes",
		},
		Run:    c12Run,
		Replay: replayAs(runCSVCase),
	})
}

var _ = math.NaN
