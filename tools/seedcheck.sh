#!/bin/bash
# usage: tools/seedcheck.sh <Cxx> <A|B> [checks...]
# Confirms a sub-agent's seeded change (suite passes with it, demo fails with it and passes without),
# then runs the given checks (default: the property's own) against it. Prints a summary line.
set -u
ID="$1"; X="$2"; shift 2
CHECKS="${*:-$ID}"
OUT=${SEED_OUT:-/tmp/wtout}/$ID
PATCH=$OUT/patch$X.diff
DEMO=$OUT/demo${X}_test.go
HERE="$(cd "$(dirname "$0")/.." && pwd)"
export GOFLAGS=-mod=mod GOPROXY=off GOSUMDB=off GOTOOLCHAIN=local
[ -s "$PATCH" ] || { echo "SEED $ID$X: no patch"; exit 1; }
SC=/tmp/sc-$ID$X
rm -rf $SC; git -C /repo worktree add -q --detach $SC HEAD || exit 1
trap 'git -C /repo worktree remove --force '$SC' 2>/dev/null' EXIT
cd $SC
git apply "$PATCH" || { echo "SEED $ID$X: patch does not apply"; exit 1; }
# the repository's internal/hash distribution test is randomly flaky (per-process hash seed): up to 3 attempts
for attempt in 1 2 3; do
  suite=$(go build ./... 2>&1 && go test -vet=off -count=1 ./... 2>&1 | grep -v "no test files" | grep -c -E "^(FAIL|---)" )
  [ "$suite" = "0" ] && break
done
RACE=""; grep -qi "race" $OUT/meta$X.txt 2>/dev/null && [ "$ID" = "C11" ] && RACE="-race"
cp "$DEMO" zz_demo_test.go 2>/dev/null
with=$(go test -vet=off $RACE -count=1 -run "TestSeeded$X" . 2>&1 | tail -3 | grep -c -E "^(FAIL|--- FAIL|panic)")
rm -f zz_demo_test.go; git checkout -q -- .; git clean -fdq
cp "$DEMO" zz_demo_test.go 2>/dev/null
without=$(go test -vet=off $RACE -count=1 -run "TestSeeded$X" . 2>&1 | tail -3 | grep -c -E "^ok")
rm -f zz_demo_test.go
cd $HERE
echo "SEED $ID$X: suite_failures=$suite demo_fails_with_patch=$with demo_passes_without=$without"
if [ "$suite" != "0" ] || [ "$with" = "0" ] || [ "$without" = "0" ]; then echo "SEED $ID$X: NOT CONFIRMED"; exit 1; fi
tools/mutant_ov.sh "$PATCH" quick $CHECKS 2>&1 | grep -E "^MUTANT|^VIOLATION|^  |HARNESS" | cut -c1-220
