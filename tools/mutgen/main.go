// mutgen lists (and materialises) small syntactic mutants of one Go source file.
// It is a development aid for the verification machinery (it measures which
// changes the checks notice); nothing registered in MANIFEST.json uses it.
//
//	mutgen list <file.go>            -> one JSON line per mutant {id, line, kind, from, to, func}
//	mutgen make <file.go> <id> <out> -> writes the mutated file
package main

import (
	"encoding/json"
	"fmt"
	"go/ast"
	"go/parser"
	"go/token"
	"os"
	"strconv"
)

type mutant struct {
	ID   int    `json:"id"`
	Line int    `json:"line"`
	Kind string `json:"kind"`
	From string `json:"from"`
	To   string `json:"to"`
	Func string `json:"func"`
	off  int
	end  int
}

var binSwap = map[token.Token][]string{
	token.LSS: {"<="}, token.LEQ: {"<"}, token.GTR: {">="}, token.GEQ: {">"},
	token.EQL: {"!="}, token.NEQ: {"=="}, token.LAND: {"||"}, token.LOR: {"&&"},
	token.ADD: {"-"}, token.SUB: {"+"}, token.MUL: {"+"}, token.QUO: {"*"}, token.REM: {"/"},
	token.AND: {"|"}, token.OR: {"&"}, token.SHL: {">>"}, token.SHR: {"<<"}, token.AND_NOT: {"&"},
}

func collect(path string) ([]mutant, []byte, error) {
	src, err := os.ReadFile(path)
	if err != nil {
		return nil, nil, err
	}
	fset := token.NewFileSet()
	f, err := parser.ParseFile(fset, path, src, 0)
	if err != nil {
		return nil, nil, err
	}
	var ms []mutant
	add := func(kind string, pos, end token.Pos, to string, fn string) {
		o, e := fset.Position(pos).Offset, fset.Position(end).Offset
		ms = append(ms, mutant{ID: len(ms), Line: fset.Position(pos).Line, Kind: kind, From: string(src[o:e]), To: to, Func: fn, off: o, end: e})
	}
	for _, d := range f.Decls {
		fd, ok := d.(*ast.FuncDecl)
		if !ok || fd.Body == nil {
			continue
		}
		name := fd.Name.Name
		if fd.Recv != nil && len(fd.Recv.List) > 0 {
			name = string(src[fset.Position(fd.Recv.List[0].Type.Pos()).Offset:fset.Position(fd.Recv.List[0].Type.End()).Offset]) + "." + name
		}
		ast.Inspect(fd.Body, func(n ast.Node) bool {
			switch x := n.(type) {
			case *ast.BinaryExpr:
				for _, to := range binSwap[x.Op] {
					// string concatenation with - does not compile; the build filter removes those
					add("binop", x.OpPos, x.OpPos+token.Pos(len(x.Op.String())), to, name)
				}
			case *ast.UnaryExpr:
				if x.Op == token.NOT {
					add("unnot", x.OpPos, x.OpPos+1, "", name)
				}
				if x.Op == token.SUB {
					add("unneg", x.OpPos, x.OpPos+1, "", name)
				}
			case *ast.BasicLit:
				if x.Kind == token.INT {
					if v, err := strconv.ParseInt(x.Value, 0, 64); err == nil {
						to := strconv.FormatInt(v+1, 10)
						if v == 1 {
							to = "0"
						}
						add("intlit", x.Pos(), x.End(), to, name)
						if v > 1 {
							add("intlit", x.Pos(), x.End(), strconv.FormatInt(v-1, 10), name)
						}
					}
				}
			case *ast.Ident:
				if x.Name == "true" {
					add("bool", x.Pos(), x.End(), "false", name)
				}
				if x.Name == "false" {
					add("bool", x.Pos(), x.End(), "true", name)
				}
			case *ast.BlockStmt:
				for _, s := range x.List {
					delStmt(s, add, name)
				}
			case *ast.CaseClause:
				for _, s := range x.Body {
					delStmt(s, add, name)
				}
			case *ast.IfStmt:
				// force the condition
				add("ifcond", x.Cond.Pos(), x.Cond.End(), "true", name)
				add("ifcond", x.Cond.Pos(), x.Cond.End(), "false", name)
			case *ast.ForStmt:
				if x.Cond != nil {
					if be, ok := x.Cond.(*ast.BinaryExpr); ok && (be.Op == token.LSS || be.Op == token.LEQ) {
						// one iteration fewer: i < n-1
						add("forbound", be.Y.Pos(), be.Y.End(), "("+string(src[fset.Position(be.Y.Pos()).Offset:fset.Position(be.Y.End()).Offset])+")-1", name)
					}
				}
			}
			return true
		})
	}
	return ms, src, nil
}

func delStmt(s ast.Stmt, add func(kind string, pos, end token.Pos, to string, fn string), name string) {
	switch y := s.(type) {
	case *ast.AssignStmt:
		if y.Tok != token.DEFINE {
			add("delstmt", y.Pos(), y.End(), "", name)
		}
	case *ast.ExprStmt:
		add("delstmt", y.Pos(), y.End(), "", name)
	case *ast.IncDecStmt:
		add("delstmt", y.Pos(), y.End(), "", name)
	case *ast.BranchStmt:
		if y.Tok == token.BREAK || y.Tok == token.CONTINUE {
			add("delstmt", y.Pos(), y.End(), "", name)
		}
	}
}

func main() {
	if len(os.Args) < 3 {
		fmt.Fprintln(os.Stderr, "usage: mutgen list <file> | make <file> <id> <out>")
		os.Exit(2)
	}
	ms, src, err := collect(os.Args[2])
	if err != nil {
		fmt.Fprintln(os.Stderr, err)
		os.Exit(2)
	}
	switch os.Args[1] {
	case "list":
		enc := json.NewEncoder(os.Stdout)
		for _, m := range ms {
			enc.Encode(m)
		}
	case "make":
		id, _ := strconv.Atoi(os.Args[3])
		if id < 0 || id >= len(ms) {
			fmt.Fprintln(os.Stderr, "no such mutant")
			os.Exit(2)
		}
		m := ms[id]
		out := append([]byte{}, src[:m.off]...)
		out = append(out, m.To...)
		out = append(out, src[m.end:]...)
		if err := os.WriteFile(os.Args[4], out, 0o644); err != nil {
			fmt.Fprintln(os.Stderr, err)
			os.Exit(2)
		}
	}
}
