//go:build verif

// Package verifseam is a virtual package placed inside the qframe module by
// `go build -overlay` so that the harness can reach internal packages. It only
// re-exports; it contains no logic of its own. One file per internal area; when an
// internal API changes so that a file no longer compiles, build.sh swaps in the
// matching stub (stub_<area>.go): the layers of the checks that need that seam are
// then skipped (and say so in the evidence), everything else keeps running.
package verifseam

import "github.com/tobgu/qframe/internal/column"

const CoreAvailable = true

type CompareResult = column.CompareResult

const (
	LessThan    = column.LessThan
	GreaterThan = column.GreaterThan
	Equal       = column.Equal
	NotEqual    = column.NotEqual
)

type Comparable = column.Comparable
