package checks

import "verif/harness/core"

// ruleAdditions: layers added to the enumerations after the Rule texts in the check files were written
// (kept in one place; appended to the Rule that goes into the evidence file).
var ruleAdditions = map[string]string{
	"C01": "Operations also include one key list object handed to both GroupBy and Distinct (four columns of different types) and an Apply/FilteredApply whose first instruction copies a column onto itself before later instructions overwrite it.",
	"C03": "L6: frames whose key columns have names that look like decorated versions of each other (-k next to k, +k, !k, 'k desc', k/K, ' k', k.1, ^k): all frames of 2-3 rows over 4 key combinations x 8 order lists naming the columns literally.",
	"C04": "Further API layers: key columns with decorated look-alike names (-k next to k, ...) with every key list; the call under test on the result of an earlier Distinct over the same columns (opposite / same Null setting, then sorted or filtered); exactly 2^k-1, 2^k, 2^k+1 distinct int keys from a contiguous range around zero for k = 6..12 (thorough: 16), every key at least twice.",
	"C05": "Further API layers as for C04: decorated look-alike key names, Distinct on the result of an earlier Distinct (opposite / same Null setting, sorted or filtered in between), 2^k-1..2^k+1 distinct keys.",
	"C06": "Frame variants also include a 40-row frame in which the FilteredApply clauses match (or miss) only one or two rows, and the aggregated variant carries a count column under a name the instructions write to.",
	"C07": "Plus string constants that look like something else ($USD, $1, $$, a column or function name, %d, {0}, null, true, 1.5, quotes, NUL) bare, concatenated on either side, n-ary and under len/upper/fill; plus every binary operator over every ordered pair of constants of the five constant types (bare, as sub-expression of column expressions, nested) and every unary function on every constant.",
	"C08": "The projection cases (every duplicate-free Select sequence, every Drop subset, every Copy pair, a Slice) also run on a frame whose column names hold * ? [ ] \\ next to names they would match as shell patterns, and on eight derived frames (aggregated with sum and count, evaluated, applied, row-numbered, distinct+sorted, filtered, read back from CSV, read back from JSON).",
	"C10": "Plus every clause tree of depth <= 2 over Not/And/Or (one or two members in both orders, three members with an empty clause in every position) with the leaves {valid filter, unknown column, And(), Or()}: Err iff any leaf is invalid; plus every constant-only expression of the C07 constant-pair family in Expr and raw style under both contexts, compared in full with the C07 model (mismatched constant types are invalid use).",
	"C11": "The operation list also holds Distinct/GroupBy keyed on a float column with both zeros and a NaN payload, a reader of that column's bit patterns, and a batch of failing calls naming close misspellings of existing columns (48 operations in the race pass).",
	"C13": "Family C: values (string and declared enum, in the first, second or every row, also the prefix alone) and first-column names that start with bytes a reader might give a meaning to (U+FEFF, NUL, #, ;, //, partial and UTF-16 byte order marks, blank, tab, = + - @ %, 0x1a, 0x7f, backslash, U+FFFE, U+2028) x 4 column orders x Header x EmptyNull.",
	"C14": "Plus a multi-byte character (U+FEFF, U+00E9, U+2028, an escaped quote, U+1F600) starting at EVERY document offset 8..8400 (across every buffer refill of the reader and the decoder), and frames with exactly one column (and two columns) whose name holds separators (comma, semicolon, blank, tab, |, :, brackets, =) for every column type.",
	"C15": "Reader documents also include fields that start or end with blanks and tabs, blanks before a quote, and lines that start with #, NUL or a byte order mark; writer frames also include 900-column int and 700-column bool/float frames (header and rows beyond 4 KiB, no string column) and a small numeric-only frame.",
	"C17": "Every leaf is also checked under Not; in / like / ilike also inverted, and with patterns and lists naming no value of the column (no row, no error); plus every pair of constants (undeclared one included) as Or(e=k1,e=k2), And(e=k1,e=k2), Or(e=k1,e!=k2), a three-member Or and Not(Or(..)): each member keeps its own validation.",
	"C18": "Enum twins also exist declared over exactly their values (strict enums): a pattern naming no declared value gives an empty result, not an error; patterns with backslashes directly in front of a leading/trailing % (escaped backslash followed by a wildcard, escaped percent) and cells ending in a backslash or %.",
	"C19": "ReadSQL also over result sets of two and three columns whose names look alike (case twins id/ID/Id, id_2, ID_2, id2, blanks at either end, printf verbs), every ordered selection.",
}

func init() {
	// runs after the init functions of the check files of this package that sort before this file
	for id, add := range ruleAdditions {
		if c := core.Lookup(id); c != nil {
			c.Rule += " " + add
		}
	}
}
