package model

import "fmt"

// ParseCSV is the reference RFC 4180 parser: a state machine over the whole
// byte string, no buffering. Records end with LF or CRLF; the final line break
// is optional; fields may be quoted, quotes are doubled inside quoted fields;
// delimiters and line breaks inside quotes are data. CRLF inside a quoted
// field denotes LF when crlfInQuotesIsLF is set (qframe documents this).
// An empty line is a record with one empty field.
func ParseCSV(doc []byte, delim byte, crlfInQuotesIsLF bool) ([][]string, error) {
	var recs [][]string
	var rec []string
	var field []byte
	i, n := 0, len(doc)
	if n == 0 {
		return nil, nil
	}
	for {
		// start of a field
		field = field[:0]
		if i < n && doc[i] == '"' {
			i++
			for {
				if i >= n {
					return nil, fmt.Errorf("unterminated quoted field")
				}
				c := doc[i]
				if c == '"' {
					if i+1 < n && doc[i+1] == '"' {
						field = append(field, '"')
						i += 2
						continue
					}
					i++
					break
				}
				if c == '\r' && crlfInQuotesIsLF && i+1 < n && doc[i+1] == '\n' {
					i++
					continue
				}
				field = append(field, c)
				i++
			}
		} else {
			for i < n && doc[i] != delim && doc[i] != '\n' && !(doc[i] == '\r' && i+1 < n && doc[i+1] == '\n') {
				field = append(field, doc[i])
				i++
			}
		}
		rec = append(rec, string(field))
		switch {
		case i >= n:
			recs = append(recs, rec)
			return recs, nil
		case doc[i] == delim:
			i++
			if i >= n {
				// a trailing delimiter at the very end: one more, empty, field
				rec = append(rec, "")
				recs = append(recs, rec)
				return recs, nil
			}
		case doc[i] == '\n' || doc[i] == '\r':
			if doc[i] == '\r' {
				i++
			}
			i++
			recs = append(recs, rec)
			rec = nil
			if i >= n {
				return recs, nil
			}
		default:
			return nil, fmt.Errorf("unexpected byte %q after quoted field at %d", doc[i], i)
		}
	}
}
