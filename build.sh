#!/bin/bash
# Builds /verif/bin/qfmc (and with argument "race" /verif/bin/qfmc-race) from
# /verif/harness against /repo's current working tree.
set -eu
HERE="$(cd "$(dirname "$0")" && pwd)"
REPO="${VERIF_REPO:-/repo}"
export GOFLAGS=-mod=mod GOPROXY=off GOSUMDB=off GOTOOLCHAIN=local
mkdir -p "$HERE/bin" "$HERE/build"
cp "$REPO/go.sum" "$HERE/harness/go.sum"
OV="$HERE/build/overlay.json"
cat > "$OV.tmp.$$" <<EOF
{"Replace": {
 "$REPO/verifseam/seam.go": "$HERE/harness/seam/seam.go",
 "$REPO/internal/sort/zz_verif.go": "$HERE/harness/seam/sort_zz_verif.go",
 "$REPO/internal/fastcsv/zz_verif.go": "$HERE/harness/seam/fastcsv_zz_verif.go"
}}
EOF
mv "$OV.tmp.$$" "$OV"
cd "$HERE/harness"
if [ "${1:-}" = "race" ]; then
  go build -race -tags verif -overlay "$OV" -o "$HERE/bin/qfmc-race.tmp.$$" . && mv "$HERE/bin/qfmc-race.tmp.$$" "$HERE/bin/qfmc-race"
else
  go build -tags verif -overlay "$OV" -o "$HERE/bin/qfmc.tmp.$$" . && mv "$HERE/bin/qfmc.tmp.$$" "$HERE/bin/qfmc"
fi
