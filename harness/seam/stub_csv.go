//go:build verif

package verifseam

import "io"

const CSVAvailable = false

type CSVScanner interface {
	Next() bool
	Fields() [][]byte
	Err() error
}

func NewCSVReaderCap(r io.Reader, delim byte, capacity int) CSVScanner { panic("csv seam unavailable") }
