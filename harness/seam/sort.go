//go:build verif

package verifseam

import (
	"github.com/tobgu/qframe/internal/index"
	qfsort "github.com/tobgu/qframe/internal/sort"
)

const SortAvailable = true

func SortFull(ix []uint32, cmp []Comparable) { qfsort.New(index.Int(ix), cmp).Sort() }

func SortQuickDepth(ix []uint32, cmp []Comparable, a, b, depth int) {
	qfsort.VerifQuickSort(qfsort.New(index.Int(ix), cmp), a, b, depth)
}

func SortHeap(ix []uint32, cmp []Comparable, a, b int) {
	qfsort.VerifHeapSort(qfsort.New(index.Int(ix), cmp), a, b)
}

func SortMaxDepth(n int) int { return qfsort.VerifMaxDepth(n) }
