// Package checks contains one scenario per property.
package checks

import (
	"encoding/json"

	"verif/harness/core"
)

// replayAs decodes a descriptor into T and runs it.
func replayAs[T any](run func(T) *core.Failure) func(json.RawMessage) *core.Failure {
	return func(raw json.RawMessage) *core.Failure {
		var c T
		if err := json.Unmarshal(raw, &c); err != nil {
			return core.Failf("bad replay descriptor: %v", err)
		}
		return run(c)
	}
}

// forEachSeq calls f with every sequence of length n over {0..k-1}.
// The slice is reused.
func forEachSeq(n, k int, f func([]int)) {
	seq := make([]int, n)
	var rec func(i int)
	rec = func(i int) {
		if i == n {
			f(seq)
			return
		}
		for v := 0; v < k; v++ {
			seq[i] = v
			rec(i + 1)
		}
	}
	rec(0)
}

// forEachPerm calls f with every permutation of 0..n-1 (slice reused).
func forEachPerm(n int, f func([]int)) {
	p := make([]int, n)
	for i := range p {
		p[i] = i
	}
	var rec func(i int)
	rec = func(i int) {
		if i == n {
			f(p)
			return
		}
		for j := i; j < n; j++ {
			p[i], p[j] = p[j], p[i]
			rec(i + 1)
			p[i], p[j] = p[j], p[i]
		}
	}
	rec(0)
}

func cloneInts(s []int) []int { return append([]int(nil), s...) }

// systematicNames: every string of 1..4 symbols over {' " $ a LF blank}: all ways of placing quote characters,
// the reserved prefix and a line break in a column name (1554 names).
func systematicNames() []string {
	alpha := []string{"'", `"`, "$", "a", "\n", " "}
	var out []string
	var rec func(cur string, n int)
	rec = func(cur string, n int) {
		if cur != "" {
			out = append(out, cur)
		}
		if n == 0 {
			return
		}
		for _, a := range alpha {
			rec(cur+a, n-1)
		}
	}
	rec("", 4)
	return out
}
