package checks

import (
	"fmt"
	"math"
	"sort"
	"strings"

	"github.com/tobgu/qframe"
	seam "github.com/tobgu/qframe/verifseam"

	"verif/harness/core"
	"verif/harness/model"
)

// C03 — Sort returns a permutation of the rows ordered by the given keys.

type ordSpec struct {
	Col      string `json:"col"`
	Reverse  bool   `json:"reverse,omitempty"`
	NullLast bool   `json:"null_last,omitempty"`
}

type sortCase struct {
	Layer  string      `json:"layer"`
	Frame  model.Frame `json:"frame"`
	Shape  int         `json:"shape"`
	Orders []ordSpec   `json:"orders"`
	// History: "resort-neg" = Sort(orders), then the key column k is overwritten by -k (Apply), then Sort(orders)
	// again; "resort-copy" = the key is overwritten by Copy(k <- id); "resort-filter" = Sort, Filter(k != first value), Sort
	History string `json:"history,omitempty"`
	// Gen: the frame is generated: "int:<n>" (n rows, key k = (r*7919) mod 701, second key k2 = r mod 3),
	// "enum:<n>:<card>" (enum key with <card> declared values v000.. in a non-alphabetical declared order,
	// every value used, nulls at every 29th row)
	Gen string `json:"gen,omitempty"`
	// Seam: "" = public API; "quick" = real quickSort entered with Depth on
	// [A,B); "heap" = real heapSort on [A,B).
	// Battery: the sorted frame also goes through the latent-state battery (battery.go)
	Battery bool `json:"battery,omitempty"`
	// Aliasing: a second Sort of the same receiver must leave the first result alone; the same for a receiver that is a
	// Slice of the first third of a larger frame, which must stay unchanged as well
	Aliasing bool `json:"aliasing,omitempty"`
	// UpperFirst: the (enum) key column k goes through the built-in ToUpper before it is sorted; the upper-cased values
	// keep the declared order of their first occurrence
	UpperFirst bool   `json:"upper_first,omitempty"`
	Seam       string `json:"seam,omitempty"`
	Depth      int    `json:"depth,omitempty"`
	A          int    `json:"a,omitempty"`
	B          int    `json:"b,omitempty"`
}

// refCompare is the reference order of one key: -1, 0, +1.
func refCompare(c model.Col, o ordSpec, i, j int) int {
	x, y := c.Cells[i], c.Cells[j]
	xn, yn := isNullCell(c.Kind, x), isNullCell(c.Kind, y)
	r := 0
	switch {
	case xn && yn:
		r = 0
	case xn:
		r = -1
		if o.NullLast {
			r = 1
		}
	case yn:
		r = 1
		if o.NullLast {
			r = -1
		}
	default:
		r = valueCompare(c, x, y)
	}
	if o.Reverse {
		r = -r
	}
	return r
}

func isNullCell(k model.Kind, c model.Cell) bool {
	switch k {
	case model.Float:
		return math.IsNaN(c.F)
	case model.String, model.Enum:
		return c.Null
	}
	return false
}

func enumRank(c model.Col, s string) int {
	for i, v := range c.EnumVals {
		if v == s {
			return i
		}
	}
	return -1
}

func valueCompare(c model.Col, x, y model.Cell) int {
	switch c.Kind {
	case model.Int:
		return cmpInt(x.I, y.I)
	case model.Float:
		if x.F < y.F {
			return -1
		}
		if x.F > y.F {
			return 1
		}
		return 0
	case model.Bool:
		return cmpInt(b2i(x.B), b2i(y.B))
	case model.String:
		return strings.Compare(x.S, y.S)
	case model.Enum:
		return cmpInt(enumRank(c, x.S), enumRank(c, y.S))
	}
	return 0
}

func cmpInt(a, b int) int {
	if a < b {
		return -1
	}
	if a > b {
		return 1
	}
	return 0
}

func b2i(b bool) int {
	if b {
		return 1
	}
	return 0
}

func toOrders(os []ordSpec) []qframe.Order {
	r := make([]qframe.Order, len(os))
	for i, o := range os {
		r[i] = qframe.Order{Column: o.Col, Reverse: o.Reverse, NullLast: o.NullLast}
	}
	return r
}

// rowKey renders row r of f over all columns.
func rowKey(f model.Frame, r int) string {
	var sb strings.Builder
	for _, c := range f.Cols {
		sb.WriteString(model.CellString(c.Kind, c.Cells[r]))
		sb.WriteByte('|')
	}
	return sb.String()
}

// checkSorted verifies that out is a permutation of in (whole rows) ordered by orders.
func checkSorted(in, out model.Frame, orders []ordSpec) *core.Failure {
	if out.Err {
		return core.Failf("Sort set Err: %s", out.ErrText)
	}
	if out.N != in.N || len(out.Cols) != len(in.Cols) {
		return core.Failf("Sort changed dimensions: in %dx%d out %dx%d", in.N, len(in.Cols), out.N, len(out.Cols))
	}
	for i := range in.Cols {
		if in.Cols[i].Name != out.Cols[i].Name || in.Cols[i].Kind != out.Cols[i].Kind {
			return core.Failf("Sort changed column %d: %s:%s -> %s:%s", i, in.Cols[i].Name, in.Cols[i].Kind, out.Cols[i].Name, out.Cols[i].Kind)
		}
	}
	a := make([]string, in.N)
	b := make([]string, in.N)
	for r := 0; r < in.N; r++ {
		a[r] = rowKey(in, r)
		b[r] = rowKey(out, r)
	}
	sort.Strings(a)
	sort.Strings(b)
	for r := range a {
		if a[r] != b[r] {
			return core.Failf("Sort result is not a permutation of the input rows:\n in: %s\nout: %s", in, out)
		}
	}
	for r := 0; r+1 < out.N; r++ {
		for _, o := range orders {
			c, _, ok := out.Col(o.Col)
			if !ok {
				return core.Failf("order column %q missing", o.Col)
			}
			cmp := refCompare(c, o, r, r+1)
			if cmp < 0 {
				break
			}
			if cmp > 0 {
				return core.Failf("rows %d,%d out of order on key %+v:\n in: %s\nout: %s", r, r+1, o, in, out)
			}
		}
	}
	return nil
}

func genSortFrame(gen string) model.Frame {
	var n, card int
	k := model.Col{Name: "k", Kind: model.Int}
	k2 := model.Col{Name: "k2", Kind: model.Int}
	id := model.Col{Name: "id", Kind: model.Int}
	if _, err := fmt.Sscanf(gen, "int:%d", &n); err == nil {
		for r := 0; r < n; r++ {
			k.Cells = append(k.Cells, model.I((r*7919)%701))
		}
	} else if _, err := fmt.Sscanf(gen, "enum:%d:%d", &n, &card); err == nil {
		k.Kind = model.Enum
		k.EnumVals = make([]string, card)
		for i := range k.EnumVals {
			k.EnumVals[i] = fmt.Sprintf("v%03d", (i*73)%card)
		}
		for r := 0; r < n; r++ {
			if r%29 == 28 {
				k.Cells = append(k.Cells, model.Null())
			} else {
				k.Cells = append(k.Cells, model.S(k.EnumVals[(r*37)%card]))
			}
		}
	}
	for r := 0; r < n; r++ {
		k2.Cells = append(k2.Cells, model.I(r%3))
		id.Cells = append(id.Cells, model.I(r))
	}
	return model.Frame{N: n, Cols: []model.Col{k, k2, id}}
}

func runSortCase(c sortCase) *core.Failure {
	if c.Gen != "" {
		c.Frame = genSortFrame(c.Gen)
	}
	c.Frame.Fix()
	if c.Seam != "" {
		return runSortSeam(c)
	}
	qf := model.BuildShape(c.Frame, c.Shape)
	in := model.ObserveAs(qf, c.Frame)
	if in.Err {
		return core.Failf("could not build input frame: %s", in.ErrText)
	}
	in.AdoptMeta(c.Frame)
	if c.UpperFirst {
		qf = qf.Apply(qframe.Instruction{Fn: "ToUpper", DstCol: "k", SrcCol1: "k"})
		in = model.Observe(qf)
		if in.Err {
			return core.Failf("ToUpper on the key column failed: %s", in.ErrText)
		}
		// the order of the upper-cased values: first occurrence in the declared list
		var up []string
		seen := map[string]bool{}
		if kc, _, ok := c.Frame.Col("k"); ok {
			for _, v := range kc.EnumVals {
				u := strings.ToUpper(v)
				if !seen[u] {
					seen[u] = true
					up = append(up, u)
				}
			}
		}
		c.Frame = c.Frame.Clone()
		for ci := range c.Frame.Cols {
			if c.Frame.Cols[ci].Name == "k" {
				c.Frame.Cols[ci].EnumVals = up
			}
		}
		in.AdoptMeta(c.Frame)
	}
	before := in.String()
	if c.History != "" {
		// the frame was sorted by the same orders before and then changed: the second Sort must order
		// it by its CURRENT content
		first := qf.Sort(toOrders(c.Orders)...)
		var changed qframe.QFrame
		switch c.History {
		case "resort-neg":
			changed = first.Apply(qframe.Instruction{Fn: func(x int) int { return -x }, DstCol: "k", SrcCol1: "k"})
		case "resort-copy":
			changed = first.Copy("k", "id")
		default:
			changed = first.Filter(qframe.Filter{Column: "id", Comparator: "!=", Arg: 0})
		}
		in2 := model.Observe(changed)
		if in2.Err {
			return core.Failf("history step failed: %s", in2.ErrText)
		}
		out2 := model.Observe(changed.Sort(toOrders(c.Orders)...))
		if f := checkSorted(in2, out2, c.Orders); f != nil {
			f.Msg = "after " + c.History + " of a frame sorted before: " + f.Msg
			return f
		}
		return nil
	}
	// a Sort that FAILS directly before (another key, descending, and then an unknown column): whatever the failed call
	// leaves behind must not reach the next one
	if bad := qf.Sort(qframe.Order{Column: "id", Reverse: true}, qframe.Order{Column: "~no such column~"}); bad.Err == nil {
		return core.Failf("Sort with an unknown last key column reported no error")
	}
	sorted := qf.Sort(toOrders(c.Orders)...)
	out := model.Observe(sorted)
	out.AdoptMeta(c.Frame)
	if f := checkSorted(in, out, c.Orders); f != nil {
		return f
	}
	// the same through the views' Slice(): the sorted frame read that way must be ordered as well
	if out2 := model.ObserveSlices(sorted); !out2.Err {
		out2.AdoptMeta(c.Frame)
		if f := checkSorted(in, out2, c.Orders); f != nil {
			f.Msg = "read through View.Slice(): " + f.Msg
			return f
		}
	}
	// a second Sort of the same receiver (all keys reversed) must leave the first result alone, and sorting a frame that
	// is a Slice of the first half of a larger one must leave that larger frame alone
	if c.Aliasing && !c.UpperFirst && c.Frame.N >= 1 && c.Gen == "" {
		firstObs := model.Observe(sorted).String()
		var revOrders []qframe.Order
		for _, o := range toOrders(c.Orders) {
			o.Reverse = !o.Reverse
			revOrders = append(revOrders, o)
		}
		_ = qf.Sort(revOrders...)
		if now := model.Observe(sorted).String(); now != firstObs {
			return core.Failf("a second Sort of the same receiver changed the frame returned by the first Sort:\nbefore: %s\nafter:  %s", firstObs, now)
		}
		dbl := c.Frame.Rows(append(append(append([]int{}, seqInts(c.Frame.N)...), seqInts(c.Frame.N)...), seqInts(c.Frame.N)...))
		parent := model.Build(dbl)
		pObs := model.Observe(parent).String()
		half := parent.Slice(0, c.Frame.N)
		s1 := half.Sort(toOrders(c.Orders)...)
		s1Obs := model.Observe(s1)
		s1Obs.AdoptMeta(c.Frame)
		if f := checkSorted(in, s1Obs, c.Orders); f != nil {
			f.Msg = "Sort of a Slice of the first third of a larger frame: " + f.Msg
			return f
		}
		_ = half.Sort(revOrders...)
		if now := model.Observe(s1); now.String() != model.Observe(s1).String() || func() bool { now.AdoptMeta(c.Frame); return now.String() != s1Obs.String() }() {
			return core.Failf("Sort of a Slice: a second Sort of the same receiver changed the first result")
		}
		if now := model.Observe(parent).String(); now != pObs {
			return core.Failf("Sort of a Slice changed the frame the Slice was taken from:\nbefore: %s\nafter:  %s", pObs, now)
		}
	}
	if c.Battery {
		what := fmt.Sprintf("Sort(%+v) on shape %s", c.Orders, model.ShapeNames[c.Shape])
		if f := latentBattery(sorted, declOf(c.Frame), what); f != nil {
			return f
		}
		if f := bookkeepingBattery(sorted, what); f != nil {
			return f
		}
	}
	if after := model.Observe(qf).String(); after != before {
		return core.Failf("Sort changed its receiver:\nbefore: %s\nafter:  %s", before, after)
	}
	return nil
}

// seamComparable is an int comparable for the sort seam (real Sorter.Less,
// real quickSort/heapSort; the comparison itself is the trivial one).
type seamComparable struct{ data []int }

func (s seamComparable) Compare(i, j uint32) seam.CompareResult {
	x, y := s.data[i], s.data[j]
	if x < y {
		return seam.LessThan
	}
	if x > y {
		return seam.GreaterThan
	}
	return seam.Equal
}
func (s seamComparable) Hash(i uint32, seed uint64) uint64 { return 0 }

func runSortSeam(c sortCase) *core.Failure {
	if !seam.SortAvailable || !seam.CoreAvailable {
		return nil // the internal sort API changed: seam layers are skipped (noted in the evidence)
	}
	col := c.Frame.Cols[0]
	data := make([]int, len(col.Cells))
	for i, x := range col.Cells {
		data[i] = x.I
	}
	n := len(data)
	ix := make([]uint32, n)
	for i := range ix {
		ix[i] = uint32(i)
	}
	cmp := []seam.Comparable{seamComparable{data}}
	switch c.Seam {
	case "quick":
		seam.SortQuickDepth(ix, cmp, c.A, c.B, c.Depth)
	case "heap":
		seam.SortHeap(ix, cmp, c.A, c.B)
	default:
		return core.Failf("unknown seam %q", c.Seam)
	}
	// outside [A,B) untouched; inside a sorted permutation of the original range
	seen := make([]bool, n)
	for p, v := range ix {
		if int(v) >= n || seen[v] {
			return core.Failf("index is no longer a permutation: %v", ix)
		}
		seen[v] = true
		if (p < c.A || p >= c.B) && int(v) != p {
			return core.Failf("%s sort on [%d,%d) touched position %d: %v (data %v)", c.Seam, c.A, c.B, p, ix, data)
		}
	}
	for p := c.A; p < c.B; p++ {
		if int(ix[p]) < c.A || int(ix[p]) >= c.B {
			return core.Failf("%s sort on [%d,%d) moved an element across the range border: %v", c.Seam, c.A, c.B, ix)
		}
		if p+1 < c.B && data[ix[p]] > data[ix[p+1]] {
			return core.Failf("%s sort (depth %d) on [%d,%d) left data unsorted: data %v index %v", c.Seam, c.Depth, c.A, c.B, data, ix)
		}
	}
	return nil
}

// ---- enumeration -----------------------------------------------------------

func c03KeyAlphabet(k model.Kind) []model.Cell {
	switch k {
	case model.Int:
		// extremes of opposite sign: a comparison by subtraction would overflow
		return []model.Cell{model.I(math.MinInt64), model.I(-3), model.I(0), model.I(7), model.I(math.MaxInt64)}
	case model.Float:
		// -0 and +0 are equal keys: the next order decides between them
		return []model.Cell{model.F(-1.5), model.F(math.Copysign(0, -1)), model.F(0), model.F(2), model.NaN()}
	case model.Bool:
		return []model.Cell{model.B(false), model.B(true)}
	case model.String:
		// "", "a", "abc": each a proper prefix of the next, lengths differing by 1 and by 2+
		// "\u00e4" starts with a byte >= 0x80 (bytewise order puts it after all ASCII)
		return []model.Cell{model.S(""), model.S("a"), model.S("abc"), model.S("b"), model.S("\u00e4"), model.Null()}
	case model.Enum:
		// declared order is the reverse of alphabetical
		return []model.Cell{model.S("z"), model.S("m"), model.S("a"), model.Null()}
	}
	return nil
}

func c03OrderLists() [][]ordSpec {
	var out [][]ordSpec
	flags := []struct{ r, n bool }{{false, false}, {true, false}, {false, true}, {true, true}}
	for _, col := range []string{"k", "k2"} {
		for _, f := range flags {
			out = append(out, []ordSpec{{col, f.r, f.n}})
		}
	}
	for _, pair := range [][2]string{{"k", "k2"}, {"k2", "k"}} {
		for _, f1 := range flags {
			for _, f2 := range flags {
				out = append(out, []ordSpec{{pair[0], f1.r, f1.n}, {pair[1], f2.r, f2.n}})
			}
		}
	}
	// the same column twice with other flags: the first occurrence decides, the later one can never matter
	for _, f1 := range flags {
		for _, f2 := range flags {
			if f1 != f2 {
				out = append(out, []ordSpec{{"k", f1.r, f1.n}, {"k2", false, false}, {"k", f2.r, f2.n}})
			}
		}
	}
	// three keys, the typed (nullable) key in the middle, a unique last key: rows tied on the first key and both
	// null in the second must still be ordered by the third
	for _, f := range flags {
		out = append(out, []ordSpec{{"k2", false, false}, {"k", f.r, f.n}, {"id", true, false}})
	}
	return out
}

func intFrame(vals []int) model.Frame {
	n := len(vals)
	k := model.Col{Name: "k", Kind: model.Int, Cells: make([]model.Cell, n)}
	id := model.Col{Name: "id", Kind: model.Int, Cells: make([]model.Cell, n)}
	for i, v := range vals {
		k.Cells[i] = model.I(v)
		id.Cells[i] = model.I(i)
	}
	return model.Frame{N: n, Cols: []model.Col{k, id}}
}

func c03Run(ctx *core.Ctx) {
	if !seam.SortAvailable || !seam.CoreAvailable {
		ctx.Note("the seam into internal/sort does not compile against this tree (its internal API changed): the seam layers (L3, adversary) are skipped, the public-API layers run")
	}
	exec := func(c sortCase, nontrivial bool) {
		ctx.Exec(c, func() *core.Failure { return runSortCase(c) })
		if nontrivial {
			ctx.Nontrivial(fmt.Sprintf("%d", ctx.Index()))
		}
		if ctx.WantSample() && ctx.Index()%997 == 0 {
			ctx.Sample(c)
		}
	}

	// Layer 1: comparators and flags, all types, all small frames
	maxN := 4
	if !ctx.Quick() {
		maxN = 5
	}
	orders := c03OrderLists()
	for _, kind := range []model.Kind{model.Int, model.Float, model.Bool, model.String, model.Enum} {
		alpha := c03KeyAlphabet(kind)
		for n := 0; n <= maxN; n++ {
			forEachSeq(n, len(alpha)*2, func(seq []int) {
				for oi, ol := range orders {
					for shape := 0; shape < model.NShapes; shape++ {
						if n == 5 && shape != (oi+seq[0]+seq[4])%model.NShapes {
							continue // 5-row frames: one rotating shape per (frame, order list)
						}
						if !ctx.Mine() {
							continue
						}
						k := model.Col{Name: "k", Kind: kind, Cells: make([]model.Cell, n)}
						if kind == model.Enum {
							k.EnumVals = []string{"z", "m", "a"}
						}
						k2 := model.Col{Name: "k2", Kind: model.Int, Cells: make([]model.Cell, n)}
						id := model.Col{Name: "id", Kind: model.Int, Cells: make([]model.Cell, n)}
						distinct := map[int]bool{}
						for i, v := range seq {
							k.Cells[i] = alpha[v/2]
							k2.Cells[i] = model.I(v % 2)
							id.Cells[i] = model.I(i)
							distinct[v] = true
						}
						c := sortCase{Layer: "L1", Frame: model.Frame{N: n, Cols: []model.Col{k, k2, id}}, Shape: shape, Orders: ol, Battery: n == 2 && oi%8 == 0 && shape == (oi+seq[0])%model.NShapes, Aliasing: n >= 2 && n <= 3 && shape == (oi+seq[0])%model.NShapes}
						exec(c, len(distinct) >= 2)
						ctx.Outcome(fmt.Sprintf("L1/%s/orders%d", kind, len(orders[oi])))
					}
				}
			})
		}
	}

	// Layer 6: key columns whose names look like decorated versions of each other ("-k" next to "k", "k desc",
	// "+k"...): an order names its column literally, whatever other columns exist
	for _, pr := range [][2]string{{"-k", "k"}, {"k", "-k"}, {"+k", "k"}, {"!k", "k"}, {"k desc", "k"}, {"k", "K"}, {" k", "k"}, {"-k", "w"}, {"k.1", "k"}, {"^k", "k"}} {
		for n := 2; n <= 3; n++ {
			forEachSeq(n, 4, func(seq []int) {
				for oi := 0; oi < 8; oi++ {
					if !ctx.Mine() {
						continue
					}
					c1 := model.Col{Name: pr[0], Kind: model.Int}
					c2 := model.Col{Name: pr[1], Kind: model.Int}
					id := model.Col{Name: "id", Kind: model.Int}
					for i, v := range seq {
						c1.Cells = append(c1.Cells, model.I(v/2))
						c2.Cells = append(c2.Cells, model.I(v%2))
						id.Cells = append(id.Cells, model.I(i))
					}
					a, b := pr[oi%2], pr[1-oi%2]
					ol := []ordSpec{{Col: a, Reverse: oi&2 != 0}}
					if oi&4 != 0 {
						ol = append(ol, ordSpec{Col: b, Reverse: oi&2 == 0})
					}
					c := sortCase{Layer: "L6", Frame: model.Frame{N: n, Cols: []model.Col{c1, c2, id}}, Shape: int(ctx.Index() % int64(model.NShapes)), Orders: ol}
					exec(c, true)
					ctx.Outcome("L6/decorated-column-names")
				}
			})
		}
	}

	// Layer 7: an enum key that went through the built-in ToUpper: every declared order of {c, C, b, a} (c and C become
	// one value), all columns of <= 3 cells over the four values and null
	{
		vals := []string{"c", "C", "b", "a"}
		cells := []model.Cell{model.S("c"), model.S("C"), model.S("b"), model.S("a"), model.Null()}
		forEachPerm(len(vals), func(p []int) {
			decl := make([]string, len(vals))
			for i, j := range p {
				decl[i] = vals[j]
			}
			for n := 2; n <= 3; n++ {
				forEachSeq(n, len(cells), func(seq []int) {
					for oi, ol := range [][]ordSpec{{{Col: "k"}}, {{Col: "k", Reverse: true}}, {{Col: "k", NullLast: true}, {Col: "id", Reverse: true}}} {
						if !ctx.Mine() {
							continue
						}
						k := model.Col{Name: "k", Kind: model.Enum, EnumVals: decl}
						id := model.Col{Name: "id", Kind: model.Int}
						k2 := model.Col{Name: "k2", Kind: model.Int}
						for i, v := range seq {
							k.Cells = append(k.Cells, cells[v])
							id.Cells = append(id.Cells, model.I(i))
							k2.Cells = append(k2.Cells, model.I(0))
						}
						exec(sortCase{Layer: "L7", Frame: model.Frame{N: n, Cols: []model.Col{k, k2, id}}, Shape: (oi + seq[0]) % model.NShapes, Orders: ol, UpperFirst: true}, true)
						ctx.Outcome("L7/upper-cased-enum-key")
					}
				})
			}
		})
	}

	// Layer 2: algorithm regimes through the public API, int keys
	ord := []ordSpec{{Col: "k"}}
	n2, n3 := 16, 11
	if !ctx.Quick() {
		n2, n3 = 20, 13
	}
	for _, spec := range []struct{ k, maxN int }{{2, n2}, {3, n3}} {
		for n := 5; n <= spec.maxN; n++ {
			forEachSeq(n, spec.k, func(seq []int) {
				// every index shape for the lengths around the insertion-sort cut-off, one rotating shape elsewhere
				for shape := 0; shape < model.NShapes; shape++ {
					if (n < 11 || n > 15) && shape != (n+seq[0]+seq[n-1])%model.NShapes {
						continue
					}
					if !ctx.Mine() {
						continue
					}
					c := sortCase{Layer: "L2", Frame: intFrame(seq), Orders: ord, Shape: shape}
					exec(c, true)
					if n > 12 {
						ctx.Outcome("L2/quicksort-regime")
					} else {
						ctx.Outcome("L2/insertion-regime")
					}
				}
			})
		}
	}
	// ninther regime: base patterns with all <=2 point deviations
	sizes := []int{41, 42, 45, 48, 64, 100}
	if ctx.Quick() {
		sizes = []int{41, 48, 64}
	}
	for _, n := range sizes {
		for pi, base := range c03Patterns(n) {
			devVals := []int{-1, n / 2, n + 1}
			// 0 deviations
			for shape := 0; shape < model.NShapes; shape++ {
				if ctx.Mine() {
					exec(sortCase{Layer: "L2n", Frame: intFrame(base), Orders: ord, Shape: shape}, true)
					ctx.Outcome("L2/ninther")
				}
				// the same keys requested in descending order (a frame that is already sorted the other way round)
				if ctx.Mine() {
					exec(sortCase{Layer: "L2n", Frame: intFrame(base), Orders: []ordSpec{{Col: "k", Reverse: true}}, Shape: shape}, true)
				}
			}
			step := 1
			if ctx.Quick() {
				step = 3
			}
			for p1 := 0; p1 < n; p1 += step {
				for _, v1 := range devVals {
					if ctx.Mine() {
						s := cloneInts(base)
						s[p1] = v1
						exec(sortCase{Layer: "L2n", Frame: intFrame(s), Orders: ord}, true)
					}
					if ctx.Quick() && pi%2 == 1 {
						continue
					}
					for p2 := p1 + 1; p2 < n; p2 += step * 2 {
						for _, v2 := range devVals {
							if !ctx.Mine() {
								continue
							}
							s := cloneInts(base)
							s[p1], s[p2] = v1, v2
							exec(sortCase{Layer: "L2n", Frame: intFrame(s), Orders: ord}, true)
						}
					}
				}
			}
		}
	}

	// Layer 4: sorting again after the sorted frame was changed (int keys, all sequences over {0,1,2}, n <= 6; 14..15 over {0,1})
	for _, spec := range []struct{ k, lo, hi int }{{3, 2, 6}, {2, 13, 15}} {
		for n := spec.lo; n <= spec.hi; n++ {
			forEachSeq(n, spec.k, func(seq []int) {
				for _, h := range []string{"resort-neg", "resort-copy", "resort-filter"} {
					for _, o := range [][]ordSpec{{{Col: "k"}}, {{Col: "k", Reverse: true}}} {
						if !ctx.Mine() {
							continue
						}
						exec(sortCase{Layer: "L4", Frame: intFrame(seq), Orders: o, History: h, Shape: int(ctx.Index() % int64(model.NShapes))}, true)
						ctx.Outcome("L4/" + h)
					}
				}
			})
		}
	}
	// Layer 5: sizes and cardinalities (generated frames): row counts around powers of two up to 10001,
	// enum keys with up to 255 declared values so that codes beyond 127 are compared with small ones
	var gens []string
	for _, n := range []int{100, 255, 256, 257, 1000, 4095, 4096, 4097, 5002, 10001} {
		gens = append(gens, fmt.Sprintf("int:%d", n))
	}
	for _, card := range []int{127, 128, 129, 200, 255} {
		gens = append(gens, fmt.Sprintf("enum:%d:%d", card+40, card), fmt.Sprintf("enum:%d:%d", 6, card))
	}
	for _, g := range gens {
		for _, o := range [][]ordSpec{{{Col: "k"}, {Col: "k2"}}, {{Col: "k", Reverse: true, NullLast: true}}, {{Col: "k2"}, {Col: "k", Reverse: true}}} {
			for _, shape := range []int{model.ShapeIdentity, model.ShapeSparsePerm, model.ShapeReversed} {
				if !ctx.Mine() {
					continue
				}
				exec(sortCase{Layer: "L5", Gen: g, Orders: o, Shape: shape}, true)
				ctx.Outcome("L5/sizes-cardinalities")
			}
		}
	}
	// Layer 3: heapsort fallback and depth budget, through the seam
	maxSeq, maxPerm := 8, 6
	if !ctx.Quick() {
		maxSeq, maxPerm = 9, 7
	}
	seamCases := func(vals []int) {
		n := len(vals)
		// heapSort on every sub-range
		for a := 0; a < n; a++ {
			for b := a; b <= n; b++ {
				if a > 1 && b < n-1 && (a+b)%2 == 1 {
					continue // thin out interior ranges; borders are all kept
				}
				if !ctx.Mine() {
					continue
				}
				exec(sortCase{Layer: "L3", Frame: intFrame(vals), Seam: "heap", A: a, B: b}, b-a >= 2)
				ctx.Outcome("L3/heap")
			}
		}
	}
	for n := 2; n <= maxSeq; n++ {
		forEachSeq(n, 3, func(seq []int) { seamCases(cloneInts(seq)) })
	}
	for n := 2; n <= maxPerm; n++ {
		forEachPerm(n, func(p []int) { seamCases(cloneInts(p)) })
	}
	// quickSort with a forced depth budget on sizes above the insertion cut-off
	qn := 14
	if !ctx.Quick() {
		qn = 15
	}
	for n := 13; n <= qn; n++ {
		forEachSeq(n, 2, func(seq []int) {
			for depth := 0; depth <= 2; depth++ {
				for _, rng := range [][2]int{{0, n}, {1, n}} {
					if !ctx.Mine() {
						continue
					}
					exec(sortCase{Layer: "L3", Frame: intFrame(cloneInts(seq)), Seam: "quick", Depth: depth, A: rng[0], B: rng[1]}, true)
					ctx.Outcome(fmt.Sprintf("L3/quick-depth%d", depth))
				}
			}
		})
	}
	// end-to-end: McIlroy's adversary constructs inputs that exhaust maxDepth
	advMax := 120
	if !ctx.Quick() {
		advMax = 300
	}
	for n := 13; n <= advMax; n++ {
		if !ctx.Mine() {
			continue
		}
		vals := antiQuicksort(n)
		exec(sortCase{Layer: "L3adv", Frame: intFrame(vals), Orders: ord}, true)
		ctx.Outcome("L3/adversary")
	}
}

func c03Patterns(n int) [][]int {
	mk := func(f func(i int) int) []int {
		s := make([]int, n)
		for i := range s {
			s[i] = f(i)
		}
		return s
	}
	pats := [][]int{
		mk(func(i int) int { return i }),
		mk(func(i int) int { return n - i }),
		mk(func(i int) int { return 7 }),
		mk(func(i int) int {
			if i < n/2 {
				return i
			}
			return n - i
		}),
		mk(func(i int) int {
			if i < n/2 {
				return 2 * i
			}
			return 2*(i-n/2) + 1
		}),
		mk(func(i int) int { return i % 2 }),
	}
	for _, period := range []int{3, 5, 8, 13} {
		p := period
		pats = append(pats, mk(func(i int) int { return i % p }))
	}
	return pats
}

// antiQuicksort builds, against the real Sorter (via the seam, full Sort),
// McIlroy's adversarial input: values are fixed lazily while the sort runs, so
// that every pivot turns out to be small and the depth budget is exhausted.
type advComparable struct {
	val    []int
	gas    int
	nsolid int
	cand   int
	ncmp   int
}

func (a *advComparable) Compare(i, j uint32) seam.CompareResult {
	x, y := int(i), int(j)
	a.ncmp++
	if a.val[x] == a.gas && a.val[y] == a.gas {
		if x == a.cand {
			a.val[x] = a.nsolid
		} else {
			a.val[y] = a.nsolid
		}
		a.nsolid++
	}
	if a.val[x] == a.gas {
		a.cand = x
	} else if a.val[y] == a.gas {
		a.cand = y
	}
	if a.val[x] < a.val[y] {
		return seam.LessThan
	}
	if a.val[x] > a.val[y] {
		return seam.GreaterThan
	}
	return seam.Equal
}
func (a *advComparable) Hash(i uint32, seed uint64) uint64 { return 0 }

func antiQuicksort(n int) []int {
	if !seam.SortAvailable || !seam.CoreAvailable {
		// without the seam the adversary cannot be run: an already sorted input instead
		out := make([]int, n)
		for i := range out {
			out[i] = i
		}
		return out
	}
	a := &advComparable{val: make([]int, n), gas: n - 1}
	for i := range a.val {
		a.val[i] = a.gas
	}
	ix := make([]uint32, n)
	for i := range ix {
		ix[i] = uint32(i)
	}
	seam.SortFull(ix, []seam.Comparable{a})
	return a.val
}

func init() {
	core.Register(&core.Check{
		ID:    "C03",
		Level: "model_checking",
		Rule: "case = (frame cells, index shape, order list[, seam entry]) enumerated exhaustively per layer " +
			"(L1: all frames n<=N over per-type alphabets of 3-5 values + null (int extremes of opposite sign, strings that are prefixes of each other, -0 and +0) x {0,1} second key x all 40 order lists over two columns + 12 lists naming a column twice with other flags + 4 three-key lists with the nullable key in the middle x 8 index shapes; " +
			"L2: all int sequences over {0,1} and {0,1,2} up to the stated lengths (all 8 index shapes for lengths 11..15, one rotating shape otherwise), ninther-size base patterns on all shapes in both directions with all <=2 point deviations; " +
			"L5: generated frames of 100..10001 rows (int keys) and enum keys with 127..255 declared values on 6 and card+40 rows; L4: Sort, then overwrite the key (Apply k := -k / Copy k <- id) or filter, then the same Sort again, on all sequences over {0,1,2} up to 6 rows and {0,1} for 13..15 rows; " +
			"L3: real quickSort/heapSort entered through the seam on all small sequences/permutations and sub-ranges, plus adversarial inputs). " +
			"Non-trivial = the keys hold at least two distinct values (L1) / length >= 2 (others); distinct by enumeration index.",
		Assumptions: []string{
			"reference comparator written from the property statement (natural order, declared enum rank, null/NaN lowest, NullLast, Reverse inverts the whole key)",
			"cells outside the small alphabets are not covered",
			"the sort seam adds entry points by overlay only; Sorter.Less/quickSort/heapSort are the repository's code",
		},
		Bound: map[string]string{
			"quick":    "L1 n<=4; L2 {0,1}^<=16, {0,1,2}^<=11, ninther sizes 41,48,64 thinned deviations; L3 seq n<=8, perms n<=6, forced depth 0..2 on n=13..14, adversary n<=120",
			"thorough": "L1 n<=5 (5-row frames on one rotating shape); L2 {0,1}^<=20, {0,1,2}^<=13, ninther sizes 41..100 all <=2 deviations; L3 seq n<=9, perms n<=7, forced depth 0..2 on n=13..15, adversary n<=300",
		},
		Run:    c03Run,
		Replay: replayAs(runSortCase),
	})
}

var _ = math.NaN

func seqInts(n int) []int {
	r := make([]int, n)
	for i := range r {
		r[i] = i
	}
	return r
}
