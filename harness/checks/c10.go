package checks

import (
	"bytes"
	"fmt"
	"math"
	"reflect"
	"strings"
	"sync"

	"github.com/tobgu/qframe"
	"github.com/tobgu/qframe/config/csv"
	"github.com/tobgu/qframe/config/eval"
	"github.com/tobgu/qframe/config/groupby"
	"github.com/tobgu/qframe/config/newqf"
	"github.com/tobgu/qframe/config/rolling"
	"github.com/tobgu/qframe/types"

	"verif/harness/core"
	"verif/harness/model"
)

// C10 — Invalid use yields Err, never a panic, and an error is sticky.

type zooCase struct {
	Suite   string `json:"suite"`
	Variant int    `json:"variant"`
	// indexes into the deterministic zoo lists of the suite
	A       int  `json:"a"`
	B       int  `json:"b"`
	C       int  `json:"c"`
	D       int  `json:"d"`
	Inverse bool `json:"inverse,omitempty"`
	// sticky: continuation operation indexes
	Cont []int  `json:"cont,omitempty"`
	Desc string `json:"desc,omitempty"` // informational
}

// ---- frames -------------------------------------------------------------------

func c10Base() model.Frame {
	N := model.Null()
	return model.Frame{N: 3, Cols: []model.Col{
		{Name: "i", Kind: model.Int, Cells: []model.Cell{model.I(1), model.I(2), model.I(3)}},
		{Name: "f", Kind: model.Float, Cells: []model.Cell{model.F(1.5), model.NaN(), model.F(3)}},
		{Name: "b", Kind: model.Bool, Cells: []model.Cell{model.B(true), model.B(false), model.B(true)}},
		{Name: "s", Kind: model.String, Cells: []model.Cell{model.S("a"), N, model.S("b")}},
		{Name: "e", Kind: model.Enum, EnumVals: []string{"x", "y"}, Cells: []model.Cell{model.S("x"), N, model.S("y")}},
		{Name: "e3", Kind: model.Enum, EnumVals: []string{"y", "x", "z"}, Cells: []model.Cell{model.S("x"), N, model.S("y")}},
		{Name: "i2", Kind: model.Int, Cells: []model.Cell{model.I(3), model.I(2), model.I(1)}},
		// the same value set as e, declared in the other order: a different enum type
		{Name: "e4", Kind: model.Enum, EnumVals: []string{"y", "x"}, Cells: []model.Cell{model.S("x"), N, model.S("y")}},
		// two different enum types whose value lists read the same when joined by blanks
		{Name: "e5", Kind: model.Enum, EnumVals: []string{"san jose", "ca"}, Cells: []model.Cell{model.S("ca"), N, model.S("san jose")}},
		{Name: "e6", Kind: model.Enum, EnumVals: []string{"san", "jose ca"}, Cells: []model.Cell{model.S("san"), N, model.S("jose ca")}},
	}}
}

var (
	c10big     qframe.QFrame
	c10bigOnce sync.Once
)

// c10BigFrame: 40000 rows (int key k with 7 values, int v, float w); shared, built once
func c10BigFrame() qframe.QFrame {
	c10bigOnce.Do(func() {
		n := 40000
		k, v, w := make([]int, n), make([]int, n), make([]float64, n)
		for i := range k {
			k[i], v[i], w[i] = i%7, i%13, float64(i%5)
		}
		c10big = qframe.New(map[string]interface{}{"k": k, "v": v, "w": w})
	})
	return c10big
}

var c10VariantNames = []string{"base", "empty", "sorted-sliced", "selected", "aggregated", "aggregated-by-enum"}

var c10vars []qframe.QFrame

func c10Variants() []qframe.QFrame {
	if c10vars == nil {
		base := c10Base()
		q := model.Build(base)
		first := func(v []*string) *string { return v[0] }
		c10vars = []qframe.QFrame{
			q,
			model.Build(base.Rows(nil)),
			q.Sort(qframe.Order{Column: "i", Reverse: true}).Slice(0, 2),
			q.Select("e4", "e3", "e", "s", "b", "f", "i2", "i"),
			q.GroupBy(groupby.Columns("i")).Aggregate(
				qframe.Aggregation{Fn: "sum", Column: "f"}, qframe.Aggregation{Fn: "majority", Column: "b"},
				qframe.Aggregation{Fn: first, Column: "s"}, qframe.Aggregation{Fn: "max", Column: "i2"}),
			// the declared enum column as the key column of an aggregation: still the declared enum
			q.GroupBy(groupby.Columns("e")).Aggregate(
				qframe.Aggregation{Fn: "sum", Column: "i"}, qframe.Aggregation{Fn: "sum", Column: "f"}, qframe.Aggregation{Fn: "majority", Column: "b"},
				qframe.Aggregation{Fn: first, Column: "s"}, qframe.Aggregation{Fn: "max", Column: "i2"}),
		}
	}
	return c10vars
}

// ---- zoo ------------------------------------------------------------------------

type zooItem struct {
	name string
	v    interface{}
}

func comparatorZoo() []zooItem {
	var z []zooItem
	for _, s := range []string{"<", "<=", ">", ">=", "=", "!=", "in", "isnull", "isnotnull", "any_bits", "all_bits", "like", "ilike", "not in", "~", ""} {
		z = append(z, zooItem{"cmp:" + s, s})
	}
	z = append(z,
		zooItem{"cmp:int", 42},
		zooItem{"cmp:nil", nil},
		zooItem{"fn:int", func(x int) bool { return x > 1 }},
		zooItem{"fn:float", func(x float64) bool { return x > 1 }},
		zooItem{"fn:bool", func(x bool) bool { return x }},
		zooItem{"fn:str", func(x *string) bool { return x != nil }},
		zooItem{"fn2:int", func(x, y int) bool { return x > y }},
		zooItem{"fn2:float", func(x, y float64) bool { return x > y }},
		zooItem{"fn2:bool", func(x, y bool) bool { return x && y }},
		zooItem{"fn2:str", func(x, y *string) bool { return x != nil && y != nil }},
		zooItem{"fn:wrongsig", func(x int) int { return x }},
		zooItem{"fn:string-not-ptr", func(x string) bool { return x != "" }},
	)
	return z
}

func argZoo() []zooItem {
	return []zooItem{
		{"nil", nil}, {"int", 2}, {"float", 2.0}, {"string", "x"}, {"bool", true},
		{"[]int", []int{1, 2}}, {"[]float64", []float64{1, 2}}, {"[]string", []string{"x", "a"}},
		{"[]iface-int", []interface{}{1, 2.0}}, {"[]iface-str", []interface{}{"x"}}, {"[]iface-mixed", []interface{}{1, "x"}},
		{"[]iface-empty", []interface{}{}},
		// mixed lists with the member of the wrong type first / in the middle (must be an error wherever it stands)
		{"[]iface-mixed-first", []interface{}{"x", 1, 2}}, {"[]iface-mixed-middle", []interface{}{1, nil, 2}}, {"[]iface-mixed-bool", []interface{}{1, true, 2}},
		{"[]iface-mixed-str", []interface{}{"x", 1, "a"}},
		{"col:i", types.ColumnName("i2")}, {"col:f", types.ColumnName("f")}, {"col:b", types.ColumnName("b")},
		{"col:s", types.ColumnName("s")}, {"col:e", types.ColumnName("e")}, {"col:e3", types.ColumnName("e3")},
		{"col:unknown", types.ColumnName("zz")}, {"struct", struct{}{}}, {"[]bool", []bool{true}}, {"*string", sptr("x")},
	}
}

var c10Cols = []string{"i", "f", "b", "s", "e", "zz"}

// c10Kinds holds the column kinds of the frame variant being classified
// (workers are single-threaded; set by setVariant before any classification).
var c10Kinds map[string]model.Kind

func setVariant(vi int) {
	c10Kinds = model.Observe(c10Variants()[vi]).Kinds()
}

func c10ColKind(name string) model.Kind {
	k, ok := c10Kinds[name]
	if !ok {
		return model.Undef
	}
	return k
}

// filterMustErr says whether (column, comparator, arg) is invalid by the rules the
// statement names (unknown column, unsupported comparator / function / argument type, mismatched column types).
func filterMustErr(col string, cmp, arg zooItem) bool {
	k := c10ColKind(col)
	if k == model.Undef {
		return true
	}
	argCol := ""
	if cn, ok := arg.v.(types.ColumnName); ok {
		argCol = string(cn)
		if c10ColKind(argCol) == model.Undef {
			return true
		}
	}
	strk := k == model.String || k == model.Enum
	switch {
	case strings.HasPrefix(cmp.name, "fn:"):
		want := map[model.Kind]string{model.Int: "fn:int", model.Float: "fn:float", model.Bool: "fn:bool", model.String: "fn:str", model.Enum: "fn:str"}[k]
		if argCol != "" && ((k == model.Int && c10ColKind(argCol) == model.Float) || (k == model.Float && c10ColKind(argCol) == model.Int)) {
			// int<->float promotion changes the column type the function is applied to; not classified
			return false
		}
		return cmp.name != want
	case strings.HasPrefix(cmp.name, "fn2:"):
		want := map[model.Kind]string{model.Int: "fn2:int", model.Float: "fn2:float", model.Bool: "fn2:bool", model.String: "fn2:str", model.Enum: "fn2:str"}[k]
		if cmp.name != want {
			if argCol != "" && ((k == model.Int && c10ColKind(argCol) == model.Float) || (k == model.Float && c10ColKind(argCol) == model.Int)) {
				return false
			}
			return true
		}
		if argCol == "" {
			return true
		}
		ak := c10ColKind(argCol)
		if k == model.Int && ak == model.Float || k == model.Float && ak == model.Int {
			return false // promoted; the function type then no longer fits, not classified here
		}
		return ak != k
	case !strings.HasPrefix(cmp.name, "cmp:") || cmp.name == "cmp:int" || cmp.name == "cmp:nil":
		return true
	}
	op := cmp.v.(string)
	if op == "not in" {
		// filter.Nin is a declared comparator whose inverse ("in") is implemented while it is not itself:
		// Not(x not in L) works, x not in L is an error. Not classified, only checked for panics.
		return false
	}
	rel := op == "<" || op == "<=" || op == ">" || op == ">=" || op == "=" || op == "!="
	if argCol != "" {
		ak := c10ColKind(argCol)
		if !rel || (k == model.Bool && op != "=" && op != "!=") {
			return true
		}
		switch {
		case ak == k && k != model.Enum:
			return false
		case k == model.Enum && ak == model.Enum:
			return argCol != col && argCol != "e" // e vs e3: different enum types
		case k == model.Int && ak == model.Float, k == model.Float && ak == model.Int:
			return false
		}
		return true
	}
	switch arg.name {
	case "nil":
		return !(op == "isnull" || op == "isnotnull") || k == model.Bool
	case "int":
		return !(k == model.Int && (rel || op == "any_bits" || op == "all_bits"))
	case "float":
		return !((k == model.Int && (rel || op == "any_bits" || op == "all_bits")) || (k == model.Float && rel))
	case "bool":
		return !(k == model.Bool && (op == "=" || op == "!="))
	case "string":
		if k == model.Enum && (rel) {
			return false // "x" is a declared value of e
		}
		return !(strk && (rel || op == "like" || op == "ilike"))
	case "[]int", "[]float64", "[]iface-int":
		return !(k == model.Int && op == "in")
	case "[]string", "[]iface-str":
		return !(strk && op == "in")
	case "[]iface-empty":
		return !((k == model.Int || strk) && op == "in")
	}
	return true // mixed lists, struct, []bool, *string
}

// ---- suites ---------------------------------------------------------------------

func expectErrFrame(what string, q qframe.QFrame, mustErr bool) *core.Failure {
	if q.Err != nil && q.Len() != -1 {
		return core.Failf("%s: Err is set (%v) but Len() = %d, want -1", what, q.Err, q.Len())
	}
	if mustErr && q.Err == nil {
		return core.Failf("%s: invalid use was not reported through Err (result has %d rows)", what, q.Len())
	}
	return nil
}

func runZooCase(c zooCase) *core.Failure {
	vars := c10Variants()
	if c.Variant >= len(vars) {
		return core.Failf("bad variant")
	}
	qf := vars[c.Variant]
	setVariant(c.Variant)
	switch c.Suite {
	case "filter":
		cmps, args := comparatorZoo(), argZoo()
		col := c10Cols[c.A]
		cmp, arg := cmps[c.B], args[c.C]
		leaf := qframe.Filter{Column: col, Comparator: cmp.v, Arg: arg.v, Inverse: c.Inverse}
		must := filterMustErr(col, cmp, arg)
		what := fmt.Sprintf("Filter{%s %s %s inverse=%v} on %s frame", col, cmp.name, arg.name, c.Inverse, c10VariantNames[c.Variant])
		allRows := qframe.Filter{Column: "i", Comparator: ">", Arg: 0}   // matches every row of every variant
		noRows := qframe.Filter{Column: "i", Comparator: "<", Arg: -100} // matches none
		wrappers := []qframe.FilterClause{leaf, qframe.Not(leaf), qframe.And(leaf), qframe.Or(leaf, allRows), qframe.And(allRows, qframe.Or(leaf)),
			// the invalid leaf after sub-clauses that already decide the result
			qframe.Or(qframe.And(allRows), leaf), qframe.Or(qframe.Not(noRows), leaf), qframe.Or(allRows, qframe.And(allRows), leaf),
			qframe.And(noRows, leaf), qframe.And(qframe.Or(noRows), leaf), qframe.Or(qframe.And(noRows), qframe.Not(qframe.And(allRows, leaf)))}
		for wi, w := range wrappers {
			if f := expectErrFrame(fmt.Sprintf("%s (wrapper %d)", what, wi), qf.Filter(w), must); f != nil {
				return f
			}
		}
		if must {
			// And is a chain of filters: once a sub-clause has failed no later sub-clause may run a user
			// callback, and the error reported is the first one
			calls := 0
			pred := qframe.Filter{Column: "i", Comparator: func(x int) bool { calls++; return true }}
			first := qf.Filter(qframe.And(leaf))
			for ci, chain := range []qframe.FilterClause{qframe.And(leaf, pred), qframe.Not(qframe.And(leaf, pred)), qframe.Or(qframe.And(leaf, pred, pred), allRows), qframe.And(qframe.And(leaf), pred)} {
				r := qf.Filter(chain)
				if r.Err == nil {
					return core.Failf("%s (chain %d): error lost", what, ci)
				}
				if calls != 0 {
					return core.Failf("%s (chain %d): a predicate later in the And chain was called %d time(s) after an earlier sub-clause had failed", what, ci, calls)
				}
			}
			other := qframe.Filter{Column: "i", Comparator: ">", Arg: "not an int"}
			if r := qf.Filter(qframe.And(leaf, other)); r.Err == nil || first.Err == nil || r.Err.Error() != first.Err.Error() {
				return core.Failf("%s: And(invalid, other invalid) reports %v, the first failure was %v", what, r.Err, first.Err)
			}
		}
		return nil
	case "apply":
		return runApplyZoo(c, qf)
	case "agg":
		return runAggZoo(c, qf)
	case "misc":
		return runMiscZoo(c, qf)
	case "sticky":
		return runSticky(c)
	case "clausetree":
		t := c10ClauseTrees()[c.A]
		what := fmt.Sprintf("Filter(%s) on %s frame", t.name, c10VariantNames[c.Variant])
		r := qf.Filter(t.cl)
		if !t.bad && r.Err != nil {
			return core.Failf("%s: valid request was rejected: %v", what, r.Err)
		}
		return expectErrFrame(what, r, t.bad)
	case "constexpr":
		// expressions over constants only (the model of C07 decides which of them are invalid); compared in full
		e := constPairExprs()[c.A]
		style := "expr"
		if c.B == 1 {
			style = "raw"
		}
		return runEvalCase(evalCase{Shape: c.D, Dst: "n", Expr: e, Style: style, User: c.C == 1})
	}
	return core.Failf("unknown suite %q", c.Suite)
}

// clause trees: every tree of depth <= 2 over Not/And/Or (one or two members, both orders) with the leaves
// {valid filter, filter on an unknown column, empty And, empty Or}; invalid iff it holds any leaf but the valid one
type c10Tree struct {
	cl   qframe.FilterClause
	bad  bool
	name string
}

var c10trees []c10Tree

func c10ClauseTrees() []c10Tree {
	if c10trees != nil {
		return c10trees
	}
	l0 := []c10Tree{
		{qframe.Filter{Column: "i", Comparator: ">", Arg: 0}, false, "ok"},
		{qframe.Filter{Column: "zz", Comparator: ">", Arg: 0}, true, "unknown-col"},
		{qframe.And(), true, "And()"},
		{qframe.Or(), true, "Or()"},
	}
	combine := func(args, deeper []c10Tree, needDeeper bool) []c10Tree {
		var out []c10Tree
		isDeeper := map[string]bool{}
		for _, d := range deeper {
			isDeeper[d.name] = true
		}
		for _, x := range args {
			if !needDeeper || isDeeper[x.name] {
				out = append(out, c10Tree{qframe.Not(x.cl), x.bad, "Not(" + x.name + ")"},
					c10Tree{qframe.And(x.cl), x.bad, "And(" + x.name + ")"},
					c10Tree{qframe.Or(x.cl), x.bad, "Or(" + x.name + ")"})
			}
			for _, y := range args {
				if needDeeper && !isDeeper[x.name] && !isDeeper[y.name] {
					continue
				}
				out = append(out, c10Tree{qframe.And(x.cl, y.cl), x.bad || y.bad, "And(" + x.name + ", " + y.name + ")"},
					c10Tree{qframe.Or(x.cl, y.cl), x.bad || y.bad, "Or(" + x.name + ", " + y.name + ")"})
			}
		}
		return out
	}
	l1 := combine(l0, nil, false)
	l2 := combine(append(append([]c10Tree{}, l0...), l1...), l1, true)
	c10trees = append(append([]c10Tree{}, l1...), l2...)
	// three members, the empty clause in every position of a clause of its own kind
	ok := l0[0]
	for _, e := range l0[2:] {
		for pos := 0; pos < 3; pos++ {
			m := []qframe.FilterClause{ok.cl, ok.cl, ok.cl}
			m[pos] = e.cl
			c10trees = append(c10trees, c10Tree{qframe.And(m...), true, fmt.Sprintf("And(3 members, %s at %d)", e.name, pos)},
				c10Tree{qframe.Or(m...), true, fmt.Sprintf("Or(3 members, %s at %d)", e.name, pos)})
		}
	}
	return c10trees
}

func applyFnZoo() []zooItem {
	return []zooItem{
		{"int->int", func(x int) int { return x }}, {"float->float", func(x float64) float64 { return x }},
		{"bool->bool", func(x bool) bool { return x }}, {"str->str", func(x *string) *string { return x }},
		{"int,int->int", func(x, y int) int { return x }}, {"float2", func(x, y float64) float64 { return x }},
		{"bool2", func(x, y bool) bool { return x }}, {"str2", func(x, y *string) *string { return x }},
		{"fn0:int", func() int { return 1 }}, {"fn0:str", func() *string { return nil }},
		{"builtin:ToUpper", "ToUpper"}, {"builtin:nope", "nope"},
		{"const:int", 1}, {"const:float", 1.5}, {"const:bool", true}, {"const:nil-string", (*string)(nil)},
		{"col:i", types.ColumnName("i")}, {"col:unknown", types.ColumnName("zz")},
		{"nil", nil}, {"struct", struct{}{}}, {"wrong-arity", func(a, b, c int) int { return a }},
		{"int->error", func(x int) error { return nil }}, {"int32", int32(1)}, {"[]int", []int{1}},
		{"string-not-ptr", func(x string) string { return x }}, {"int,float->int", func(x int, y float64) int { return x }},
	}
}

var c10Names = []string{"n", "i", "", "$x", "'q'", `"q"`,
	// reserved and quoted names with a quote character or a line break inside
	`"a""`, `''a'`, "'''", "$a\nb", "'a\nb'", `"say "hi""`}
var c10Srcs = []string{"", "i", "f", "b", "s", "e", "zz"}

func applyMustErr(fn zooItem, dst, s1, s2 string) bool {
	if !checkNameOK(dst) && !(fn.name == "col:i" && dst == "i") {
		// every instruction that produces a column must check the destination name
		// (exception: errors detected earlier are errors as well, so mustErr stays true)
		return true
	}
	if s1 == "" && s2 != "" {
		// Instruction with SrcCol2 but no SrcCol1 is treated as a zero-argument apply: classified by the fn only
		s2 = ""
	}
	k1, k2 := c10ColKind(s1), c10ColKind(s2)
	if s1 != "" && k1 == model.Undef || s2 != "" && k2 == model.Undef {
		return true
	}
	fk := func(k model.Kind) string {
		switch k {
		case model.Int:
			return "int"
		case model.Float:
			return "float"
		case model.Bool:
			return "bool"
		}
		return "str"
	}
	switch {
	case s1 == "":
		switch fn.name {
		case "fn0:int", "fn0:str", "const:int", "const:float", "const:bool", "const:nil-string", "builtin:ToUpper", "builtin:nope":
			return false // bare strings are string constants
		case "col:i":
			return false
		}
		return true
	case s2 == "":
		switch fn.name {
		case "int->int":
			return k1 != model.Int
		case "float->float":
			return k1 != model.Float
		case "bool->bool":
			return k1 != model.Bool
		case "str->str":
			return fk(k1) != "str"
		case "builtin:ToUpper":
			return fk(k1) != "str"
		}
		return true
	default:
		if k1 != k2 {
			return true
		}
		switch fn.name {
		case "int,int->int":
			return k1 != model.Int
		case "float2":
			return k1 != model.Float
		case "bool2":
			return k1 != model.Bool
		case "str2":
			return fk(k1) != "str"
		}
		return true
	}
}

func runApplyZoo(c zooCase, qf qframe.QFrame) *core.Failure {
	fns := applyFnZoo()
	fn, dst, s1, s2 := fns[c.A], c10Names[c.B], c10Srcs[c.C], c10Srcs[c.D]
	what := fmt.Sprintf("Apply{Fn:%s Dst:%q Src1:%q Src2:%q} on %s frame", fn.name, dst, s1, s2, c10VariantNames[c.Variant])
	in := qframe.Instruction{Fn: fn.v, DstCol: dst, SrcCol1: s1, SrcCol2: s2}
	must := applyMustErr(fn, dst, s1, s2)
	if f := expectErrFrame(what, qf.Apply(in), must); f != nil {
		return f
	}
	if f := expectErrFrame("Filtered"+what, qf.FilteredApply(qframe.Filter{Column: "i", Comparator: ">", Arg: 1}, in), must); f != nil {
		return f
	}
	// an invalid clause in FilteredApply
	if f := expectErrFrame("FilteredApply(bad clause) "+what, qf.FilteredApply(qframe.Filter{Column: "zz", Comparator: ">", Arg: 1}, in), true); f != nil {
		return f
	}
	return nil
}

func aggFnZoo() []zooItem {
	return []zooItem{
		{"sum", "sum"}, {"max", "max"}, {"min", "min"}, {"avg", "avg"}, {"majority", "majority"}, {"count", "count"}, {"nope", "nope"}, {"", ""},
		{"[]int->int", func(v []int) int { return len(v) }}, {"[]float->float", func(v []float64) float64 { return 0 }},
		{"[]bool->bool", func(v []bool) bool { return true }}, {"[]str->str", func(v []*string) *string { return nil }},
		{"int", 42}, {"nil", nil}, {"[]int->float", func(v []int) float64 { return 0 }}, {"int->int", func(v int) int { return v }},
	}
}

func aggMustErr(fn zooItem, col, as string, by []string) bool {
	k := c10ColKind(col)
	if k == model.Undef {
		return true
	}
	name := as
	if name == "" {
		name = col
	}
	for _, b := range by {
		if b == name {
			return true
		}
	}
	switch fn.name {
	case "count":
		return false
	case "sum", "max", "min":
		return !(k == model.Int || k == model.Float)
	case "avg":
		return k != model.Float
	case "majority":
		return k != model.Bool
	case "[]int->int":
		return k != model.Int
	case "[]float->float":
		return k != model.Float
	case "[]bool->bool":
		return k != model.Bool
	case "[]str->str":
		return !(k == model.String || k == model.Enum)
	}
	return true
}

func runAggZoo(c zooCase, qf qframe.QFrame) *core.Failure {
	fns := aggFnZoo()
	fn := fns[c.A]
	col := c10Cols[c.B]
	as := []string{"", "out", "i", "i2"}[c.C]
	bys := [][]string{{}, {"i"}, {"i2", "s"}, {"zz"}}
	by := bys[c.D]
	what := fmt.Sprintf("GroupBy(%v).Aggregate{Fn:%s Column:%q As:%q} on %s frame", by, fn.name, col, as, c10VariantNames[c.Variant])
	g := qf.GroupBy(groupby.Columns(by...))
	byBad := false
	for _, b := range by {
		if c10ColKind(b) == model.Undef {
			byBad = true
		}
	}
	if byBad && g.Err == nil {
		return core.Failf("%s: GroupBy on an unknown column reported no error", what)
	}
	if _, err := g.QFrames(); byBad && err == nil {
		return core.Failf("%s: QFrames of an errored grouper returned no error", what)
	}
	out := g.Aggregate(qframe.Aggregation{Fn: fn.v, Column: col, As: as})
	return expectErrFrame(what, out, byBad || aggMustErr(fn, col, as, by))
}

// miscellaneous operations with invalid requests
type miscItem struct {
	name string
	must bool
	run  func(q qframe.QFrame) (qframe.QFrame, error)
}

func miscZoo() []miscItem {
	fr := func(f func(q qframe.QFrame) qframe.QFrame) func(q qframe.QFrame) (qframe.QFrame, error) {
		return func(q qframe.QFrame) (qframe.QFrame, error) { return f(q), nil }
	}
	col := func(s string) types.ColumnName { return types.ColumnName(s) }
	items := []miscItem{
		{"Sort(unknown)", true, fr(func(q qframe.QFrame) qframe.QFrame { return q.Sort(qframe.Order{Column: "zz"}) })},
		{"Sort(i, unknown)", true, fr(func(q qframe.QFrame) qframe.QFrame {
			return q.Sort(qframe.Order{Column: "i"}, qframe.Order{Column: "zz"})
		})},
		{"Select(unknown)", true, fr(func(q qframe.QFrame) qframe.QFrame { return q.Select("i", "zz") })},
		{"Distinct(unknown)", true, fr(func(q qframe.QFrame) qframe.QFrame { return q.Distinct(groupby.Columns("zz")) })},
		{"Distinct(i, unknown)", true, fr(func(q qframe.QFrame) qframe.QFrame { return q.Distinct(groupby.Columns("i", "zz")) })},
		{"Copy(unknown src)", true, fr(func(q qframe.QFrame) qframe.QFrame { return q.Copy("n", "zz") })},
		{"Copy(bad dst)", true, fr(func(q qframe.QFrame) qframe.QFrame { return q.Copy("$n", "i") })},
		{"Copy(empty dst)", true, fr(func(q qframe.QFrame) qframe.QFrame { return q.Copy("", "i") })},
		{"WithRowNums(bad)", true, fr(func(q qframe.QFrame) qframe.QFrame { return q.WithRowNums("'q'") })},
		{"Slice(-1,1)", true, fr(func(q qframe.QFrame) qframe.QFrame { return q.Slice(-1, 1) })},
		{"Slice(2,1)", true, fr(func(q qframe.QFrame) qframe.QFrame { return q.Slice(2, 1) })},
		{"Slice(0,n+1)", true, fr(func(q qframe.QFrame) qframe.QFrame { return q.Slice(0, q.Len()+1) })},
		{"Slice(n+1,n+1)", true, fr(func(q qframe.QFrame) qframe.QFrame { return q.Slice(q.Len()+1, q.Len()+1) })},
		{"Filter(And())", true, fr(func(q qframe.QFrame) qframe.QFrame { return q.Filter(qframe.And()) })},
		{"Filter(Or())", true, fr(func(q qframe.QFrame) qframe.QFrame { return q.Filter(qframe.Or()) })},
		{"Filter(Not(And()))", true, fr(func(q qframe.QFrame) qframe.QFrame { return q.Filter(qframe.Not(qframe.And())) })},
		{"Filter(And(ok, Or()))", true, fr(func(q qframe.QFrame) qframe.QFrame {
			return q.Filter(qframe.And(qframe.Filter{Column: "i", Comparator: ">", Arg: 0}, qframe.Or()))
		})},
		{"Filter(Or(Not(Or()), ok))", true, fr(func(q qframe.QFrame) qframe.QFrame {
			return q.Filter(qframe.Or(qframe.Not(qframe.Or()), qframe.Filter{Column: "i", Comparator: ">", Arg: 0}))
		})},
		{"Filter(enum col vs other enum type)", true, fr(func(q qframe.QFrame) qframe.QFrame {
			return q.Filter(qframe.Filter{Column: "e", Comparator: "=", Arg: col("e3")})
		})},
		{"Filter(enum col vs enum with the same values in another order)", true, fr(func(q qframe.QFrame) qframe.QFrame {
			return q.Filter(qframe.Filter{Column: "e", Comparator: "=", Arg: col("e4")})
		})},
		{"New(three or four columns, a middle one of another length)", true, fr(func(q qframe.QFrame) qframe.QFrame {
			if r := qframe.New(map[string]interface{}{"a": []int{1, 2, 3}, "b": []int{1, 2}, "c": []int{1, 2, 3}}); r.Err == nil {
				return r
			}
			if r := qframe.New(map[string]interface{}{"a": []int{1, 2, 3}, "b": []float64{1, 2, 3}, "c": qframe.ConstInt{Val: 1, Count: 4}, "d": []bool{true, false, true}}); r.Err == nil {
				return r
			}
			return qframe.New(map[string]interface{}{"a": []int{1, 2, 3}, "b": []string{"x"}, "c": []int{1, 2, 3}}, newqf.ColumnOrder("c", "b", "a"))
		})},
		{"Filter(enum col vs enum type with other value boundaries), all comparators", true, fr(func(q qframe.QFrame) qframe.QFrame {
			for _, cmp := range []string{"=", "!=", "<", "<=", ">", ">="} {
				for _, inv := range []bool{false, true} {
					if r := q.Filter(qframe.Filter{Column: "e5", Comparator: cmp, Arg: col("e6"), Inverse: inv}); r.Err == nil {
						return r
					}
				}
			}
			return q.Filter(qframe.Filter{Column: "e6", Comparator: "=", Arg: col("e5")})
		})},
		{"Filter(enum col < enum with the same values in another order)", true, fr(func(q qframe.QFrame) qframe.QFrame {
			return q.Filter(qframe.Not(qframe.Filter{Column: "e4", Comparator: "<", Arg: col("e")}))
		})},
		{"Eval(function registered only in ANOTHER context, default ctx)", true, fr(func(q qframe.QFrame) qframe.QFrame {
			other := eval.NewDefaultCtx()
			_ = other.SetFunc("leak1", func(x int) int { return x })
			_ = other.SetFunc("leak2", func(x, y int) int { return x })
			_ = other.SetFunc("leak3", func(x float64) float64 { return x })
			if r := q.Eval("n", qframe.Expr("leak2", col("i"), col("i2"))); r.Err == nil {
				return r
			}
			if r := q.Eval("n", qframe.Expr("leak3", col("f")), eval.EvalContext(eval.NewDefaultCtx())); r.Err == nil {
				return r
			}
			return q.Eval("n", qframe.Expr("leak1", col("i")))
		})},
		{"Filter(undeclared enum constant)", true, fr(func(q qframe.QFrame) qframe.QFrame {
			return q.Filter(qframe.Filter{Column: "e", Comparator: "=", Arg: "nope"})
		})},
		{"Filter(float NaN arg)", true, fr(func(q qframe.QFrame) qframe.QFrame {
			return q.Filter(qframe.Filter{Column: "f", Comparator: "<", Arg: nanValue()})
		})},
		{"Filter(invalid regex)", true, fr(func(q qframe.QFrame) qframe.QFrame {
			return q.Filter(qframe.Filter{Column: "s", Comparator: "like", Arg: "a(b"})
		})},
		{"Eval(unknown fn)", true, fr(func(q qframe.QFrame) qframe.QFrame { return q.Eval("n", qframe.Expr("nope", col("i"))) })},
		{"Eval(unknown col)", true, fr(func(q qframe.QFrame) qframe.QFrame { return q.Eval("n", qframe.Expr("abs", col("zz"))) })},
		{"Eval(Val unknown col)", true, fr(func(q qframe.QFrame) qframe.QFrame { return q.Eval("n", qframe.Val(col("zz"))) })},
		{"Eval(int+float)", true, fr(func(q qframe.QFrame) qframe.QFrame { return q.Eval("n", qframe.Expr("+", col("i"), col("f"))) })},
		{"Eval(int+float const)", true, fr(func(q qframe.QFrame) qframe.QFrame { return q.Eval("n", qframe.Expr("+", col("i"), 1.5)) })},
		{"Eval(no args)", true, fr(func(q qframe.QFrame) qframe.QFrame { return q.Eval("n", qframe.Expr("+")) })},
		{"Eval(raw non-string op)", true, fr(func(q qframe.QFrame) qframe.QFrame {
			return q.Eval("n", qframe.Val([]interface{}{42, col("i"), col("i")}))
		})},
		{"Eval(raw 4 elements)", true, fr(func(q qframe.QFrame) qframe.QFrame {
			return q.Eval("n", qframe.Val([]interface{}{"+", col("i"), col("i"), col("i")}))
		})},
		{"Eval(raw empty list)", true, fr(func(q qframe.QFrame) qframe.QFrame { return q.Eval("n", qframe.Val([]interface{}{})) })},
		{"Eval(raw one element)", true, fr(func(q qframe.QFrame) qframe.QFrame { return q.Eval("n", qframe.Val([]interface{}{"abs"})) })},
		{"Eval(struct value)", true, fr(func(q qframe.QFrame) qframe.QFrame { return q.Eval("n", qframe.Val(struct{}{})) })},
		{"Eval(nested invalid)", true, fr(func(q qframe.QFrame) qframe.QFrame {
			return q.Eval("n", qframe.Expr("+", col("i"), qframe.Expr("abs", qframe.Expr("nope", col("i")))))
		})},
		{"Eval(nested raw invalid)", true, fr(func(q qframe.QFrame) qframe.QFrame {
			return q.Eval("n", qframe.Val([]interface{}{"+", col("i"), []interface{}{"abs", []interface{}{7, col("i")}}}))
		})},
		{"Eval(bad dst)", true, fr(func(q qframe.QFrame) qframe.QFrame { return q.Eval("$n", qframe.Expr("abs", col("i"))) })},
		{"Eval(binary on unary-only fn)", true, fr(func(q qframe.QFrame) qframe.QFrame { return q.Eval("n", qframe.Expr("abs", col("i"), col("i"))) })},
		{"Eval(unary on binary-only fn)", true, fr(func(q qframe.QFrame) qframe.QFrame { return q.Eval("n", qframe.Expr("+", col("i"))) })},
		{"IntView(wrong type)", true, func(q qframe.QFrame) (qframe.QFrame, error) { _, err := q.IntView("s"); return qframe.QFrame{}, err }},
		{"FloatView(unknown)", true, func(q qframe.QFrame) (qframe.QFrame, error) { _, err := q.FloatView("zz"); return qframe.QFrame{}, err }},
		{"BoolView(wrong type)", true, func(q qframe.QFrame) (qframe.QFrame, error) { _, err := q.BoolView("i"); return qframe.QFrame{}, err }},
		{"StringView(enum column)", true, func(q qframe.QFrame) (qframe.QFrame, error) { _, err := q.StringView("e"); return qframe.QFrame{}, err }},
		{"EnumView(string column)", true, func(q qframe.QFrame) (qframe.QFrame, error) { _, err := q.EnumView("s"); return qframe.QFrame{}, err }},
		{"ToCSV(unknown column)", true, func(q qframe.QFrame) (qframe.QFrame, error) {
			return qframe.QFrame{}, q.ToCSV(&bytes.Buffer{}, csvColumns(append(q.ColumnNames()[1:], "zz")))
		}},
		{"ToCSV(too few columns)", true, func(q qframe.QFrame) (qframe.QFrame, error) {
			return qframe.QFrame{}, q.ToCSV(&bytes.Buffer{}, csvColumns(q.ColumnNames()[1:]))
		}},
		// valid requests next to the invalid ones (vacuity guard: these must not be errors)
		{"Aggregate(sum i2, max i2 As mx) valid", false, fr(func(q qframe.QFrame) qframe.QFrame {
			return q.GroupBy(groupby.Columns("i")).Aggregate(qframe.Aggregation{Fn: "sum", Column: "i2"}, qframe.Aggregation{Fn: "max", Column: "i2", As: "mx"})
		})},
		{"Aggregate(count of the key column As n, min f As i2) valid", false, fr(func(q qframe.QFrame) qframe.QFrame {
			return q.GroupBy(groupby.Columns("i")).Aggregate(qframe.Aggregation{Fn: "count", Column: "i", As: "n"}, qframe.Aggregation{Fn: "min", Column: "f", As: "i2"})
		})},
		{"Aggregate(two aggregations with the same As)", true, fr(func(q qframe.QFrame) qframe.QFrame {
			return q.GroupBy(groupby.Columns("i")).Aggregate(qframe.Aggregation{Fn: "sum", Column: "i2", As: "x"}, qframe.Aggregation{Fn: "max", Column: "f", As: "x"})
		})},
		{"Aggregate(the same column twice without As)", true, fr(func(q qframe.QFrame) qframe.QFrame {
			return q.GroupBy(groupby.Columns("i")).Aggregate(qframe.Aggregation{Fn: "sum", Column: "i2"}, qframe.Aggregation{Fn: "max", Column: "i2"})
		})},
		{"Aggregate(second aggregation named like the key column)", true, fr(func(q qframe.QFrame) qframe.QFrame {
			return q.GroupBy(groupby.Columns("i")).Aggregate(qframe.Aggregation{Fn: "sum", Column: "i2"}, qframe.Aggregation{Fn: "max", Column: "f", As: "i"})
		})},
		{"Aggregate(first valid, second invalid function) on 40000 rows", true, fr(func(q qframe.QFrame) qframe.QFrame {
			return c10BigFrame().GroupBy(groupby.Columns("k")).Aggregate(qframe.Aggregation{Fn: "avg", Column: "v"}, qframe.Aggregation{Fn: "sum", Column: "w"}, qframe.Aggregation{Fn: "max", Column: "w", As: "mw"})
		})},
		{"Aggregate(last invalid) on 40000 rows", true, fr(func(q qframe.QFrame) qframe.QFrame {
			return c10BigFrame().GroupBy(groupby.Columns("k")).Aggregate(qframe.Aggregation{Fn: "sum", Column: "w"}, qframe.Aggregation{Fn: "max", Column: "w", As: "mw"}, qframe.Aggregation{Fn: "avg", Column: "v"})
		})},
		{"ReadCSV twice with the SAME option values (undeclared enum value): second call", true, fr(func(q qframe.QFrame) qframe.QFrame {
			ev := csv.EnumValues(map[string][]string{"e": {"a", "b"}})
			ty := csv.Types(map[string]string{"e": "enum"})
			first := qframe.ReadCSV(strings.NewReader("e,i\na,1\nzzz,2\n"), ty, ev)
			if first.Err == nil {
				return first
			}
			return qframe.ReadCSV(strings.NewReader("e,i\na,1\nzzz,2\n"), ty, ev)
		})},
		{"ReadCSV twice with the SAME option values: the enum read second is still strict", true, fr(func(q qframe.QFrame) qframe.QFrame {
			ev := csv.EnumValues(map[string][]string{"e": {"a", "b"}})
			ty := csv.Types(map[string]string{"e": "enum"})
			_ = qframe.ReadCSV(strings.NewReader("e,i\na,1\nb,2\n"), ty, ev)
			second := qframe.ReadCSV(strings.NewReader("e,i\nb,1\na,2\n"), ty, ev)
			if second.Err != nil {
				return qframe.QFrame{} // reading valid data must work: reported as "no error" below
			}
			return second.Filter(qframe.Filter{Column: "e", Comparator: "=", Arg: "zzz"})
		})},
		{"Val(list holding only an operation)", true, fr(func(q qframe.QFrame) qframe.QFrame {
			if r := q.Eval("n", qframe.Val([]interface{}{"abs"})); r.Err == nil {
				return r
			}
			if r := q.Eval("n", qframe.Expr("+", col("i"), []interface{}{"abs"})); r.Err == nil {
				return r
			}
			return q.Eval("n", qframe.Val([]interface{}{"+", col("i"), []interface{}{"abs"}}))
		})},
		{"Val(empty list) / Val(list of five)", true, fr(func(q qframe.QFrame) qframe.QFrame {
			if r := q.Eval("n", qframe.Val([]interface{}{})); r.Err == nil {
				return r
			}
			return q.Eval("n", qframe.Val([]interface{}{"+", col("i"), col("i2"), col("i"), col("i2"), 1, 2}))
		})},
		{"Sort(i) valid", false, fr(func(q qframe.QFrame) qframe.QFrame { return q.Sort(qframe.Order{Column: "i"}) })},
		{"Slice(0,n) valid", false, fr(func(q qframe.QFrame) qframe.QFrame { return q.Slice(0, q.Len()) })},
		{"Slice(n,n) valid", false, fr(func(q qframe.QFrame) qframe.QFrame { return q.Slice(q.Len(), q.Len()) })},
		{"Eval(i+i2) valid", false, fr(func(q qframe.QFrame) qframe.QFrame { return q.Eval("n", qframe.Expr("+", col("i"), col("i2"))) })},
	}
	return items
}

func runMiscZoo(c zooCase, qf qframe.QFrame) *core.Failure {
	it := miscZoo()[c.A]
	what := fmt.Sprintf("%s on %s frame", it.name, c10VariantNames[c.Variant])
	q, err := it.run(qf)
	if err != nil {
		if !it.must {
			return core.Failf("%s: valid request returned error %v", what, err)
		}
		return nil
	}
	if strings.Contains(it.name, "View") || strings.HasPrefix(it.name, "ToCSV") {
		if it.must {
			return core.Failf("%s: no error returned", what)
		}
		return nil
	}
	if !it.must && q.Err != nil {
		return core.Failf("%s: valid request was rejected: %v", what, q.Err)
	}
	return expectErrFrame(what, q, it.must)
}

// ---- sticky errors -----------------------------------------------------------

type contOp struct {
	name string
	// frame -> frame; callbacks increment *calls
	run func(q qframe.QFrame, calls *int) qframe.QFrame
}

type countingWriter struct{ n int }

func (w *countingWriter) Write(p []byte) (int, error) { w.n += len(p); return len(p), nil }

func contOps() []contOp {
	ctxFor := func(calls *int) *eval.Context {
		ctx := eval.NewDefaultCtx()
		_ = ctx.SetFunc("cnt", func(x int) int { *calls++; return x })
		_ = ctx.SetFunc("cnt2", func(x, y int) int { *calls++; return x })
		return ctx
	}
	pred := func(calls *int) qframe.Filter {
		return qframe.Filter{Column: "i", Comparator: func(x int) bool { *calls++; return true }}
	}
	return []contOp{
		{"Filter(fn)", func(q qframe.QFrame, c *int) qframe.QFrame { return q.Filter(pred(c)) }},
		{"Filter(And(fn,fn))", func(q qframe.QFrame, c *int) qframe.QFrame { return q.Filter(qframe.And(pred(c), pred(c))) }},
		{"Filter(Or(fn,Not(fn)))", func(q qframe.QFrame, c *int) qframe.QFrame {
			return q.Filter(qframe.Or(pred(c), qframe.Not(qframe.And(pred(c)))))
		}},
		{"Filter(Not(fn))", func(q qframe.QFrame, c *int) qframe.QFrame { return q.Filter(qframe.Not(pred(c))) }},
		{"Filter(Null())", func(q qframe.QFrame, c *int) qframe.QFrame { return q.Filter(qframe.Null()) }},
		{"Sort(i)", func(q qframe.QFrame, c *int) qframe.QFrame { return q.Sort(qframe.Order{Column: "i"}) }},
		{"Sort()", func(q qframe.QFrame, c *int) qframe.QFrame { return q.Sort() }},
		{"Slice(0,0)", func(q qframe.QFrame, c *int) qframe.QFrame { return q.Slice(0, 0) }},
		{"Select(i)", func(q qframe.QFrame, c *int) qframe.QFrame { return q.Select("i") }},
		{"Select()", func(q qframe.QFrame, c *int) qframe.QFrame { return q.Select() }},
		{"Drop(i)", func(q qframe.QFrame, c *int) qframe.QFrame { return q.Drop("i") }},
		{"Drop()", func(q qframe.QFrame, c *int) qframe.QFrame { return q.Drop() }},
		{"Copy(n,i)", func(q qframe.QFrame, c *int) qframe.QFrame { return q.Copy("n", "i") }},
		{"Copy(i,i)", func(q qframe.QFrame, c *int) qframe.QFrame { return q.Copy("i", "i") }},
		{"Apply(fn0)", func(q qframe.QFrame, c *int) qframe.QFrame {
			return q.Apply(qframe.Instruction{Fn: func() int { *c++; return 1 }, DstCol: "n"})
		}},
		{"Apply(fn1)", func(q qframe.QFrame, c *int) qframe.QFrame {
			return q.Apply(qframe.Instruction{Fn: func(x int) int { *c++; return x }, DstCol: "n", SrcCol1: "i"})
		}},
		{"Apply(fn2)", func(q qframe.QFrame, c *int) qframe.QFrame {
			return q.Apply(qframe.Instruction{Fn: func(x, y int) int { *c++; return x }, DstCol: "n", SrcCol1: "i", SrcCol2: "i2"})
		}},
		{"Apply(const, fn1)", func(q qframe.QFrame, c *int) qframe.QFrame {
			return q.Apply(qframe.Instruction{Fn: 1, DstCol: "n"}, qframe.Instruction{Fn: func(x int) int { *c++; return x }, DstCol: "m", SrcCol1: "n"})
		}},
		{"Apply()", func(q qframe.QFrame, c *int) qframe.QFrame { return q.Apply() }},
		{"FilteredApply(fn, fn1)", func(q qframe.QFrame, c *int) qframe.QFrame {
			return q.FilteredApply(pred(c), qframe.Instruction{Fn: func(x int) int { *c++; return x }, DstCol: "n", SrcCol1: "i"})
		}},
		{"FilteredApply(Null, fn0)", func(q qframe.QFrame, c *int) qframe.QFrame {
			return q.FilteredApply(qframe.Null(), qframe.Instruction{Fn: func() int { *c++; return 1 }, DstCol: "n"})
		}},
		{"Eval(user fn)", func(q qframe.QFrame, c *int) qframe.QFrame {
			return q.Eval("n", qframe.Expr("cnt", types.ColumnName("i")), eval.EvalContext(ctxFor(c)))
		}},
		{"Eval(nested user fn)", func(q qframe.QFrame, c *int) qframe.QFrame {
			return q.Eval("n", qframe.Expr("cnt2", qframe.Expr("cnt", types.ColumnName("i")), 1), eval.EvalContext(ctxFor(c)))
		}},
		{"Eval(const)", func(q qframe.QFrame, c *int) qframe.QFrame { return q.Eval("n", qframe.Val(1)) }},
		{"Eval(col)", func(q qframe.QFrame, c *int) qframe.QFrame { return q.Eval("n", qframe.Val(types.ColumnName("i"))) }},
		{"WithRowNums", func(q qframe.QFrame, c *int) qframe.QFrame { return q.WithRowNums("rn") }},
		{"Distinct()", func(q qframe.QFrame, c *int) qframe.QFrame { return q.Distinct() }},
		{"Distinct(i)", func(q qframe.QFrame, c *int) qframe.QFrame { return q.Distinct(groupby.Columns("i")) }},
		{"GroupBy(i).Aggregate(fn)", func(q qframe.QFrame, c *int) qframe.QFrame {
			return q.GroupBy(groupby.Columns("i")).Aggregate(qframe.Aggregation{Fn: func(v []int) int { *c++; return 0 }, Column: "i2"})
		}},
		{"GroupBy().Aggregate(count)", func(q qframe.QFrame, c *int) qframe.QFrame {
			return q.GroupBy().Aggregate(qframe.Aggregation{Fn: "count", Column: "i"})
		}},
		{"GroupBy(i).Aggregate()", func(q qframe.QFrame, c *int) qframe.QFrame { return q.GroupBy(groupby.Columns("i")).Aggregate() }},
		{"Rolling(fn)", func(q qframe.QFrame, c *int) qframe.QFrame {
			return q.Rolling(func(v []int) int { *c++; return 0 }, "n", "i", rolling.WindowSize(2))
		}},
		{"Rolling(invalid window size)", func(q qframe.QFrame, c *int) qframe.QFrame {
			return q.Rolling(func(v []int) int { *c++; return 0 }, "n", "i", rolling.WindowSize(0))
		}},
		{"Rolling(invalid position)", func(q qframe.QFrame, c *int) qframe.QFrame {
			return q.Rolling("sum", "n", "i", rolling.Position("nowhere"))
		}},
		{"Sort(unknown column)", func(q qframe.QFrame, c *int) qframe.QFrame { return q.Sort(qframe.Order{Column: "zz"}) }},
		{"Select(unknown column)", func(q qframe.QFrame, c *int) qframe.QFrame { return q.Select("zz") }},
		{"Copy(illegal name)", func(q qframe.QFrame, c *int) qframe.QFrame { return q.Copy("$x", "i") }},
		{"Eval(malformed)", func(q qframe.QFrame, c *int) qframe.QFrame {
			return q.Eval("n", qframe.Expr("nope", types.ColumnName("zz")))
		}},
		{"Slice(bad bounds)", func(q qframe.QFrame, c *int) qframe.QFrame { return q.Slice(5, 2) }},
		{"Filter(unknown comparator)", func(q qframe.QFrame, c *int) qframe.QFrame {
			return q.Filter(qframe.Filter{Column: "i", Comparator: "nosuch", Arg: 1})
		}},
	}
}

// errored frames are values (Err set, no rows): built once per variant and worker
var c10erroredCache = map[int][]struct {
	name string
	q    qframe.QFrame
}{}

// erroredFrames: one representative per way of producing an error.
func erroredFrames(base qframe.QFrame) []struct {
	name string
	q    qframe.QFrame
} {
	var out []struct {
		name string
		q    qframe.QFrame
	}
	add := func(name string, q qframe.QFrame) {
		out = append(out, struct {
			name string
			q    qframe.QFrame
		}{name, q})
	}
	for _, it := range miscZoo() {
		if !it.must || strings.Contains(it.name, "View") || strings.HasPrefix(it.name, "ToCSV") {
			continue
		}
		q, _ := it.run(base)
		add(it.name, q)
		// after a valid prefix
		q2, _ := it.run(base.Sort(qframe.Order{Column: "i", Reverse: true}).Copy("c2", "i"))
		add("valid prefix -> "+it.name, q2)
	}
	add("Filter(unknown column)", base.Filter(qframe.Filter{Column: "zz", Comparator: ">", Arg: 1}))
	add("Filter(bad comparator)", base.Filter(qframe.Filter{Column: "i", Comparator: "~", Arg: 1}))
	add("Filter(bad arg type)", base.Filter(qframe.Filter{Column: "i", Comparator: ">", Arg: struct{}{}}))
	add("Apply(unknown src)", base.Apply(qframe.Instruction{Fn: func(x int) int { return x }, DstCol: "n", SrcCol1: "zz"}))
	add("Apply(bad fn type)", base.Apply(qframe.Instruction{Fn: struct{}{}, DstCol: "n"}))
	add("Apply(bad dst)", base.Apply(qframe.Instruction{Fn: 1, DstCol: ""}))
	add("FilteredApply(bad clause)", base.FilteredApply(qframe.Or(), qframe.Instruction{Fn: 1, DstCol: "n"}))
	add("Aggregate(unknown column)", base.GroupBy(groupby.Columns("i")).Aggregate(qframe.Aggregation{Fn: "sum", Column: "zz"}))
	add("Aggregate(unknown fn)", base.GroupBy(groupby.Columns("i")).Aggregate(qframe.Aggregation{Fn: "nope", Column: "i2"}))
	add("Aggregate(group column)", base.GroupBy(groupby.Columns("i")).Aggregate(qframe.Aggregation{Fn: "sum", Column: "i"}))
	add("GroupBy(unknown).Aggregate", base.GroupBy(groupby.Columns("zz")).Aggregate(qframe.Aggregation{Fn: "sum", Column: "i"}))
	add("New(unequal lengths)", qframe.New(map[string]interface{}{"i": []int{1}, "i2": []int{1, 2}}))
	add("New(bad name)", qframe.New(map[string]interface{}{"$i": []int{1}}))
	add("ReadCSV(column count mismatch)", qframe.ReadCSV(strings.NewReader("i,i2\n1\n")))
	add("ReadJSON(garbage)", qframe.ReadJSON(strings.NewReader("{")))
	return out
}

func runSticky(c zooCase) *core.Failure {
	base := c10Variants()[c.Variant]
	efs, ok := c10erroredCache[c.Variant]
	if !ok {
		efs = erroredFrames(base)
		c10erroredCache[c.Variant] = efs
	}
	if c.A >= len(efs) {
		return core.Failf("bad errored frame index")
	}
	ef := efs[c.A]
	if ef.q.Err == nil {
		return core.Failf("%s on %s frame did not produce an error", ef.name, c10VariantNames[c.Variant])
	}
	ops := contOps()
	calls := 0
	q := ef.q
	firstText := ef.q.Err.Error() // the text, not the error object: looking at a failed frame must not rewrite its error
	var names []string
	for _, oi := range c.Cont {
		q = ops[oi].run(q, &calls)
		names = append(names, ops[oi].name)
		if q.Err == nil {
			return core.Failf("error lost: [%s] -> %s yields a frame without Err", ef.name, strings.Join(names, " -> "))
		}
		if !strings.Contains(q.Err.Error(), firstText) {
			return core.Failf("the error was replaced: [%s] -> %s reports %q, the frame it was called on reported %q", ef.name, strings.Join(names, " -> "), q.Err.Error(), firstText)
		}
		if q.Len() != -1 {
			return core.Failf("errored frame exposes rows: [%s] -> %s has Len() %d", ef.name, strings.Join(names, " -> "), q.Len())
		}
		if calls != 0 {
			return core.Failf("user callback invoked %d time(s) on an errored frame: [%s] -> %s", calls, ef.name, strings.Join(names, " -> "))
		}
	}
	// terminal observations
	what := fmt.Sprintf("[%s] -> %s", ef.name, strings.Join(names, " -> "))
	g := q.GroupBy(groupby.Columns("i"))
	if g.Err == nil {
		return core.Failf("%s: GroupBy of an errored frame has no Err", what)
	}
	if fs, err := g.QFrames(); err == nil || len(fs) != 0 {
		return core.Failf("%s: Grouper.QFrames of an errored grouper returned %d frames, err=%v", what, len(fs), err)
	}
	if a := g.Aggregate(qframe.Aggregation{Fn: func(v []int) int { calls++; return 0 }, Column: "i2"}); a.Err == nil || calls != 0 {
		return core.Failf("%s: Aggregate of an errored grouper: Err=%v callbacks=%d", what, a.Err, calls)
	}
	w := &countingWriter{}
	if err := q.ToCSV(w); err == nil || w.n != 0 {
		return core.Failf("%s: ToCSV of an errored frame: err=%v, %d bytes written", what, err, w.n)
	}
	if err := q.ToJSON(w); err == nil || w.n != 0 {
		return core.Failf("%s: ToJSON of an errored frame: err=%v, %d bytes written", what, err, w.n)
	}
	if err := q.ToSQL(nil); err == nil {
		return core.Failf("%s: ToSQL of an errored frame returned nil", what)
	}
	if _, err := q.IntView("i"); false && err == nil {
		_ = err // views of errored frames are not specified by the statement
	}
	// every observer of a failed frame may be called (whatever it returns): none of them panics
	_ = q.ColumnNames()
	_ = q.ColumnTypes()
	_ = q.ColumnTypeMap()
	_ = q.Contains("i")
	_ = q.ByteSize()
	_, _ = q.Equals(q)
	_, _ = q.Equals(base)
	_, _ = base.Equals(q)
	_, _ = q.IntView("i")
	_, _ = q.StringView("s")
	_, _ = q.FloatView("f")
	_, _ = q.BoolView("b")
	_, _ = q.EnumView("e")
	// writing, grouping and printing the failed frame must have left its error as it was
	_ = q.String()
	if after := q.Err.Error(); !strings.Contains(after, firstText) || (len(c.Cont) == 0 && after != firstText) {
		return core.Failf("%s: after GroupBy/ToCSV/ToJSON/ToSQL/String on the failed frame its error reads %q, before it read %q", what, after, firstText)
	}
	if len(c.Cont) > 0 {
		if now := ef.q.Err.Error(); now != firstText {
			return core.Failf("%s: the error of the frame the chain started from changed from %q to %q", what, firstText, now)
		}
	}
	return nil
}

func c10Run(ctx *core.Ctx) {
	vars := c10Variants()
	exec := func(c zooCase, outcome string) {
		ctx.Exec(c, func() *core.Failure { return runZooCase(c) })
		ctx.Outcome(outcome)
		if ctx.WantSample() && ctx.Index()%1777 == 13 {
			ctx.Sample(c)
		}
	}
	cmps, args := comparatorZoo(), argZoo()
	for vi := range vars {
		setVariant(vi)
		for ci, col := range c10Cols {
			for bi, cmp := range cmps {
				for ai, arg := range args {
					for _, inv := range []bool{false, true} {
						if !ctx.Mine() {
							continue
						}
						must := filterMustErr(col, cmp, arg)
						out := "filter/valid-or-unclassified"
						if must {
							out = "filter/must-err"
							ctx.Nontrivial(fmt.Sprintf("f/%d/%d/%d/%d/%v", vi, ci, bi, ai, inv))
						}
						exec(zooCase{Suite: "filter", Variant: vi, A: ci, B: bi, C: ai, Inverse: inv, Desc: col + " " + cmp.name + " " + arg.name}, out)
					}
				}
			}
		}
	}
	fns := applyFnZoo()
	for vi := range vars {
		setVariant(vi)
		for fi, fn := range fns {
			for ni, dst := range c10Names {
				for s1i, s1 := range c10Srcs {
					for s2i, s2 := range c10Srcs {
						if !ctx.Mine() {
							continue
						}
						out := "apply/valid"
						if applyMustErr(fn, dst, s1, s2) {
							out = "apply/must-err"
							ctx.Nontrivial(fmt.Sprintf("a/%d/%d/%d/%d/%d", vi, fi, ni, s1i, s2i))
						}
						exec(zooCase{Suite: "apply", Variant: vi, A: fi, B: ni, C: s1i, D: s2i, Desc: fn.name}, out)
					}
				}
			}
		}
	}
	for vi := range vars {
		for fi := range aggFnZoo() {
			for ci := range c10Cols {
				for asi := 0; asi < 4; asi++ {
					for bi := 0; bi < 4; bi++ {
						if !ctx.Mine() {
							continue
						}
						ctx.Nontrivial(fmt.Sprintf("g/%d/%d/%d/%d/%d", vi, fi, ci, asi, bi))
						exec(zooCase{Suite: "agg", Variant: vi, A: fi, B: ci, C: asi, D: bi}, "agg")
					}
				}
			}
		}
	}
	for vi := range vars {
		for mi := range miscZoo() {
			if !ctx.Mine() {
				continue
			}
			ctx.Nontrivial(fmt.Sprintf("m/%d/%d", vi, mi))
			exec(zooCase{Suite: "misc", Variant: vi, A: mi}, "misc")
		}
	}
	for vi := range vars {
		for ti := range c10ClauseTrees() {
			if !ctx.Mine() {
				continue
			}
			ctx.Nontrivial(fmt.Sprintf("t/%d/%d", vi, ti))
			exec(zooCase{Suite: "clausetree", Variant: vi, A: ti}, "clausetree")
		}
	}
	for ei := range constPairExprs() {
		for style := 0; style < 2; style++ {
			for user := 0; user < 2; user++ {
				if !ctx.Mine() {
					continue
				}
				ctx.Nontrivial(fmt.Sprintf("ce/%d/%d/%d", ei, style, user))
				exec(zooCase{Suite: "constexpr", D: int(ctx.Index() % int64(model.NShapes)), A: ei, B: style, C: user}, "constexpr")
			}
		}
	}
	// sticky: every errored frame x every continuation of length <= 2 (<= 3 over a reduced set in thorough)
	nops := len(contOps())
	for vi := range []int{0, 1} {
		nef := len(erroredFrames(vars[vi]))
		for ei := 0; ei < nef; ei++ {
			if ctx.Mine() {
				exec(zooCase{Suite: "sticky", Variant: vi, A: ei}, "sticky/0")
			}
			for o1 := 0; o1 < nops; o1++ {
				if ctx.Mine() {
					exec(zooCase{Suite: "sticky", Variant: vi, A: ei, Cont: []int{o1}}, "sticky/1")
				}
				for o2 := 0; o2 < nops; o2++ {
					if ctx.Mine() {
						ctx.Nontrivial(fmt.Sprintf("s/%d/%d/%d/%d", vi, ei, o1, o2))
						exec(zooCase{Suite: "sticky", Variant: vi, A: ei, Cont: []int{o1, o2}}, "sticky/2")
					}
					if ctx.Quick() || ei%4 != 0 {
						continue
					}
					for o3 := 0; o3 < nops; o3 += 3 {
						if ctx.Mine() {
							exec(zooCase{Suite: "sticky", Variant: vi, A: ei, Cont: []int{o1, o2, o3}}, "sticky/3")
						}
					}
				}
			}
		}
	}
}

func init() {
	core.Register(&core.Check{
		ID:    "C10",
		Setup: func() { c10Variants(); erroredFrames(c10Variants()[0]) },
		Level: "model_checking",
		Rule: "zoo suites, each the full product of its argument menus on 5 frame variants (base, empty, sorted+sliced, selected, aggregated): " +
			"Filter{6 columns x 28 comparators (all names, unknown, int, nil, functions of every signature) x 22 argument values x Inverse} in 11 clause wrappers (alone, negated, and after sub-clauses that already decide the result) plus And chains with counting predicates and a second invalid sub-clause; " +
			"Apply/FilteredApply{26 Fn values x 6 destination names x 7x7 source columns}; GroupBy/Aggregate{16 Fn x 6 columns x 4 As x 4 key lists}; ~50 miscellaneous invalid requests (Sort/Select/Distinct/Copy/Slice/empty And,Or/enum type mismatch/Eval malformed/views/ToCSV). " +
			"Oracles: no panic ever; invalid by the classification table => Err set and Len() = -1. Sticky suite: every errored frame (~100 ways of producing one, also after a valid prefix) x every continuation of length <= 2 over 40 operations (valid ones with counting callbacks and invalid ones that would raise an error of their own): the SAME error kept, Len -1, no callback call, GroupBy/QFrames/Aggregate carry the error, ToCSV/ToJSON/ToSQL fail and write nothing. " +
			"Non-trivial = cases classified must-err and sticky chains of length 2.",
		Assumptions: []string{
			"the validity tables (filterMustErr/applyMustErr/aggMustErr) are written from the statement's list of invalid uses; combinations they do not classify (e.g. int<->float promotion with function comparators) are only checked for panics",
			"documented panics (Must*View, ItemAt out of range, DivI by zero) and typed nil function values are not generated",
		},
		Bound: map[string]string{
			"quick":    "full products of all zoo menus; sticky continuations of length <= 2",
			"thorough": "adds sticky continuations of length 3 (every third operation last) for a quarter of the errored frames",
		},
		Run:    c10Run,
		Replay: replayAs(runZooCase),
	})
}

var _ = reflect.TypeOf

func nanValue() float64 { return math.NaN() }

func csvColumns(cols []string) csv.ToConfigFunc { return csv.Columns(cols) }
