#!/bin/bash
# usage: tools/mutant.sh <patch.diff> <tier> <Cxx>...
# Applies a patch to /repo's working tree, runs the given checks, and always
# restores the tree. Prints one line per check: the exit code and whether a
# VIOLATION line was printed. Never commits anything.
set -u
PATCH="$(readlink -f "$1")"; TIER="$2"; shift 2
HERE="$(cd "$(dirname "$0")/.." && pwd)"
if ! git -C /repo diff --quiet; then echo "refusing: /repo has uncommitted changes"; exit 2; fi
git -C /repo apply "$PATCH" || { echo "patch does not apply"; exit 2; }
trap 'git -C /repo checkout -- . ; git -C /repo clean -fdq; "$HERE/build.sh"' EXIT
export VERIF_EVIDENCE_DIR=/dev/null
for id in "$@"; do
  out="$(VERIF_NO_EVIDENCE=1 "$HERE/run.sh" "$id" "$TIER" 2>&1)"; rc=$?
  v=$(echo "$out" | grep -c '^VIOLATION')
  echo "MUTANT $(basename "$(dirname "$PATCH")")/$(basename "$PATCH") $id $TIER exit=$rc violation_lines=$v"
  echo "$out" | grep -A3 '^VIOLATION' | head -8
  echo "$out" | grep 'HARNESS-ERROR' | head -3
done
