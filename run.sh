#!/bin/bash
# usage: run.sh <Cxx> <quick|thorough>
# Rebuilds the harness against /repo's current working tree (replace directive
# + overlay seams, build tag "verif") and runs one check.
set -u
ID="${1:?property id}"
TIER="${2:-${VERIF_TIER:-quick}}"
HERE="$(cd "$(dirname "$0")" && pwd)"
export VERIF_DIR="$HERE"
"$HERE/build.sh" || { echo "HARNESS-ERROR property=$ID build failed"; exit 2; }
BIN="$HERE/bin/qfmc"
if [ "$ID" = "C11" ]; then
  "$HERE/build.sh" race || { echo "HARNESS-ERROR property=$ID race build failed"; exit 2; }
fi
exec "$BIN" run "$ID" "$TIER"
