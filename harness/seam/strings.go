//go:build verif

package verifseam

import qfstrings "github.com/tobgu/qframe/internal/strings"

const StringsAvailable = true

func ToUpper(buf *[]byte, s string) string { return qfstrings.ToUpper(buf, s) }
