package checks

import (
	"fmt"
	"math"

	"github.com/tobgu/qframe"
	"github.com/tobgu/qframe/types"

	"verif/harness/core"
	"verif/harness/model"
)

// C02 — Filter keeps exactly the rows satisfying the clause, in frame order.

type filterCase struct {
	FrameID int          `json:"frame_id"`
	Shape   int          `json:"shape"`
	Clause  model.Clause `json:"clause"`
	// Battery: 1 = the returned frame also goes through the latent-state battery (battery.go); 2 = after the filter the
	// RECEIVER and frames derived from it go through it (deep); 3 = the same on the battery frame (FrameID ignored)
	Battery int `json:"battery,omitempty"`
}

var c02EnumVals = []string{"z", "x", "y"} // declared order differs from the alphabet

func c02Frames() []model.Frame {
	nan := math.NaN()
	nan2 := math.Float64frombits(0xFFF8000000000000)
	ints := func(name string, v ...int) model.Col {
		c := model.Col{Name: name, Kind: model.Int}
		for _, x := range v {
			c.Cells = append(c.Cells, model.I(x))
		}
		return c
	}
	floats := func(name string, v ...float64) model.Col {
		c := model.Col{Name: name, Kind: model.Float}
		for _, x := range v {
			c.Cells = append(c.Cells, model.F(x))
		}
		return c
	}
	bools := func(name string, v ...bool) model.Col {
		c := model.Col{Name: name, Kind: model.Bool}
		for _, x := range v {
			c.Cells = append(c.Cells, model.B(x))
		}
		return c
	}
	strs := func(name string, kind model.Kind, v ...string) model.Col {
		c := model.Col{Name: name, Kind: kind}
		if kind == model.Enum {
			c.EnumVals = c02EnumVals
		}
		for _, x := range v {
			if x == "\x00null" {
				c.Cells = append(c.Cells, model.Null())
			} else {
				c.Cells = append(c.Cells, model.S(x))
			}
		}
		return c
	}
	const N = "\x00null"
	// an enum whose values are derived from the data (no declaration): only =, !=, in, isnull,
	// like and predicates are used on it (no order is declared)
	derived := func(name string, v ...string) model.Col {
		c := strs(name, model.Enum, v...)
		c.EnumVals = nil
		return c
	}
	f0 := model.Frame{N: 5, Cols: []model.Col{
		ints("i", 1, 2, 3, 2, 0), ints("i2", 2, 2, 1, 3, 0),
		// nan2: the NaN arithmetic produces on amd64 (0/0), another bit pattern than math.NaN()
		floats("f", 1.5, nan, 2, 3, nan2), floats("f2", 2, 1, nan2, 3, nan),
		bools("b", true, false, true, false, true), bools("b2", true, true, false, false, true),
		strs("s", model.String, "a", N, "", "b", N), strs("s2", model.String, "b", "a", N, "b", N),
		strs("e", model.Enum, "x", N, "y", "z", N), strs("e2", model.Enum, "y", "x", N, "z", N),
		derived("d", "p", N, "q", "p", N),
		ints("id", 0, 1, 2, 3, 4),
	}}
	f1 := f0.Rows(nil)
	f2 := f0.Rows([]int{4})
	f3 := f0.Rows([]int{3, 3, 0})
	// other value patterns: extremes, negative numbers, -0/Inf, strings that are prefixes of each other, non-ASCII
	f4 := model.Frame{N: 6, Cols: []model.Col{
		ints("i", -3, 2, math.MaxInt64, math.MinInt64, 0, 4), ints("i2", 2, -3, math.MinInt64, math.MaxInt64, 0, 4),
		floats("f", math.Copysign(0, -1), math.Inf(1), math.Inf(-1), 2, 0.5, nan), floats("f2", 0, math.Inf(1), 2, math.Inf(-1), nan, nan),
		bools("b", false, false, true, true, false, true), bools("b2", false, true, true, false, false, true),
		// "\u0131x", "A\u017f": the first rune that changes under upper-casing also changes its UTF-8 width
		strs("s", model.String, "a", "ab", "", "B", "\u00e4", "\u0131x"), strs("s2", model.String, "ab", "a", N, "b", "\u00e4", "A\u017f"),
		strs("e", model.Enum, "z", "x", "y", N, "z", "x"), strs("e2", model.Enum, "x", "x", N, "y", "z", "z"),
		derived("d", "q", "q", N, "p", "p", "\u017fr"),
		ints("id", 0, 1, 2, 3, 4, 5),
	}}
	// larger frames (row counts around the block sizes a kernel might use), rows drawn from f4 and f0 in a
	// mixed order; the LAST rows are always among the interesting ones
	mixed := func(n int) model.Frame {
		g := model.Frame{N: n}
		for ci, c4 := range f4.Cols {
			c0 := f0.Cols[ci]
			nc := model.Col{Name: c4.Name, Kind: c4.Kind, EnumVals: c4.EnumVals}
			for r := 0; r < n; r++ {
				switch {
				case c4.Name == "id":
					nc.Cells = append(nc.Cells, model.I(r))
				case (n-1-r)%3 != 2:
					nc.Cells = append(nc.Cells, c4.Cells[((n-1-r)*5)%6])
				default:
					nc.Cells = append(nc.Cells, c0.Cells[(n-1-r)%5])
				}
			}
			g.Cols = append(g.Cols, nc)
		}
		return g
	}
	frames := []model.Frame{f0, f1, f2, f3, f4}
	for _, n := range []int{70, 8, 15, 16, 17, 32, 33, 64, 128, 129} {
		frames = append(frames, mixed(n))
	}
	return append(frames, c02BigEnumFrame())
}

// c02BigEnumFrame (always the LAST frame; used by its own layer only): two enum columns of one
// type with 200 declared values, every value present, so that enum codes beyond 127 take part in
// ordering comparisons.
func c02BigEnumFrame() model.Frame {
	const n = 200
	vals := make([]string, n)
	for i := range vals {
		vals[i] = fmt.Sprintf("v%03d", (i*73)%n) // declared order is not alphabetical
	}
	e := model.Col{Name: "e", Kind: model.Enum, EnumVals: vals}
	e2 := model.Col{Name: "e2", Kind: model.Enum, EnumVals: vals}
	id := model.Col{Name: "id", Kind: model.Int}
	for r := 0; r < n; r++ {
		e.Cells = append(e.Cells, model.S(vals[(r*37)%n]))
		if r%17 == 5 {
			e2.Cells = append(e2.Cells, model.Null())
		} else {
			e2.Cells = append(e2.Cells, model.S(vals[(r*91+3)%n]))
		}
		id.Cells = append(id.Cells, model.I(r))
	}
	return model.Frame{N: n, Cols: []model.Col{e, e2, id}}
}

func lf(col, cmp, kind string) model.Leaf { return model.Leaf{Col: col, Cmp: cmp, ArgKind: kind} }

func fb(v float64) uint64 { return math.Float64bits(v) }

// c02Leaves is the full leaf alphabet (valid leaves only; invalid ones belong to C10).
func c02Leaves() []model.Leaf {
	var out []model.Leaf
	add := func(l model.Leaf) {
		out = append(out, l)
		l.Inverse = true
		out = append(out, l)
	}
	rel := []string{"<", "<=", ">", ">=", "=", "!="}
	// int
	for _, cmp := range rel {
		for _, k := range []int{0, 2, 4} {
			l := lf("i", cmp, "int")
			l.I = k
			add(l)
		}
		l := lf("i", cmp, "float")
		l.FB = fb(2.0)
		add(l)
		for _, ac := range []string{"i2", "f2"} {
			l := lf("i", cmp, "col")
			l.ArgCol = ac
			add(l)
		}
	}
	for _, cmp := range []string{"any_bits", "all_bits"} {
		for _, k := range []int{1, 2, 3} {
			l := lf("i", cmp, "int")
			l.I = k
			add(l)
		}
	}
	{
		l := lf("i", "in", "ints")
		l.List = []model.Cell{model.I(1), model.I(3)}
		add(l)
		l = lf("i", "in", "floats")
		l.List = []model.Cell{{FB: fb(2)}}
		add(l)
		l = lf("i", "in", "iface")
		l.List = []model.Cell{model.I(0), {FB: fb(3)}}
		l.Tags = []string{"i", "f"}
		add(l)
		l = lf("i", "in", "ints")
		l.List = []model.Cell{}
		add(l)
		// value lists whose extremes are 2^63 or more apart, lists spanning exactly 63 / 64 / 65 values, an
		// unsorted list, a list with a repeated member
		for _, list := range [][]int{{math.MinInt64, 0}, {math.MaxInt64, math.MinInt64, 4}, {2, math.MaxInt64}, {math.MinInt64}, {-3, math.MaxInt64}, {-3, 59, 2}, {-3, 60, 2}, {-3, 61, 2},
			{4, -3, 2, 0}, {2, 2, 4}, {0, 1 << 32}, {-1 << 31, 4}} {
			l = lf("i", "in", "ints")
			for _, v := range list {
				l.List = append(l.List, model.I(v))
			}
			add(l)
		}
	}
	// ordering against the extreme constants
	for _, cmp := range rel {
		for _, k := range []int{math.MaxInt64, math.MinInt64, -3} {
			l := lf("i", cmp, "int")
			l.I = k
			add(l)
		}
	}
	add(lf("i", "isnull", "none"))
	add(lf("i", "isnotnull", "none"))
	add(lf("i", "fn:odd", "none"))
	add(lf("i", "fn:gt1", "none"))
	add(lf("i", "fn:eq-1", "none"))
	add(lf("i", "fn:eq-2", "none"))
	{
		l := lf("i", "fn:lt", "col")
		l.ArgCol = "i2"
		add(l)
	}
	// float
	for _, cmp := range rel {
		for _, k := range []float64{0.5, 2, 3} {
			l := lf("f", cmp, "float")
			l.FB = fb(k)
			add(l)
		}
		for _, ac := range []string{"f2", "i2"} {
			l := lf("f", cmp, "col")
			l.ArgCol = ac
			add(l)
		}
	}
	add(lf("f", "isnull", "none"))
	add(lf("f", "isnotnull", "none"))
	add(lf("f", "fn:gt1_5", "none"))
	add(lf("f", "fn:nan", "none"))
	{
		l := lf("f", "fn:lt", "col")
		l.ArgCol = "f2"
		add(l)
	}
	// bool
	for _, cmp := range []string{"=", "!="} {
		for _, k := range []bool{true, false} {
			l := lf("b", cmp, "bool")
			l.B = k
			add(l)
		}
		l := lf("b", cmp, "col")
		l.ArgCol = "b2"
		add(l)
	}
	add(lf("b", "fn:id", "none"))
	{
		l := lf("b", "fn:xor", "col")
		l.ArgCol = "b2"
		add(l)
	}
	// string and enum
	for _, col := range []string{"s", "e"} {
		consts := []string{"a", "", "b", "c"}
		if col == "e" {
			consts = []string{"x", "y", "z"}
		}
		for _, cmp := range rel {
			for _, k := range consts {
				l := lf(col, cmp, "string")
				l.S = k
				add(l)
			}
			l := lf(col, cmp, "col")
			l.ArgCol = col + "2"
			add(l)
		}
		{
			l := lf(col, "in", "strings")
			l.List = []model.Cell{model.S(consts[0]), model.S(consts[1])}
			add(l)
			l = lf(col, "in", "iface")
			l.List = []model.Cell{model.S(consts[2])}
			l.Tags = []string{"s"}
			add(l)
			l = lf(col, "in", "strings")
			l.List = []model.Cell{}
			add(l)
		}
		for _, cmp := range []string{"like", "ilike"} {
			for _, p := range []string{consts[0], "%", "%" + consts[2], "A%", "X%", ".*", "\u0131X", "a\u017f%", "%\u017fR", "A.*", "a.?"} {
				l := lf(col, cmp, "string")
				l.S = p
				add(l)
			}
		}
		add(lf(col, "isnull", "none"))
		add(lf(col, "isnotnull", "none"))
		add(lf(col, "fn:nil", "none"))
		add(lf(col, "fn:nonempty", "none"))
		add(lf(col, "fn:eq-a", "none"))
		add(lf(col, "fn:eq-b", "none"))
		{
			// two in-lists that print alike: ["a b"] and ["a", "b"]
			l := lf(col, "in", "strings")
			l.List = []model.Cell{model.S("a b")}
			add(l)
			l = lf(col, "in", "strings")
			l.List = []model.Cell{model.S("a"), model.S("b")}
			add(l)
		}
		for _, fn := range []string{"fn:samenil", "fn:lt"} {
			l := lf(col, fn, "col")
			l.ArgCol = col + "2"
			add(l)
		}
	}
	// derived enum: constants present in the data and absent from it
	for _, cmp := range []string{"=", "!="} {
		for _, k := range []string{"p", "q", "absent"} {
			l := lf("d", cmp, "string")
			l.S = k
			add(l)
		}
	}
	{
		l := lf("d", "in", "strings")
		l.List = []model.Cell{model.S("p"), model.S("absent")}
		add(l)
		add(lf("d", "isnull", "none"))
		add(lf("d", "fn:nil", "none"))
		l = lf("d", "like", "string")
		l.S = "%p%"
		add(l)
	}
	return out
}

// c02Core is the small leaf set used for exhaustive tree enumeration: per
// type the risky kernels (isnull, isnotnull, !=, a predicate, an inverted
// leaf, a column-argument leaf, an in leaf).
func c02Core(size int) []model.Leaf {
	mk := func(col, cmp, kind string, f func(*model.Leaf)) model.Leaf {
		l := lf(col, cmp, kind)
		if f != nil {
			f(&l)
		}
		return l
	}
	core := []model.Leaf{
		mk("i", ">", "int", func(l *model.Leaf) { l.I = 1 }),
		mk("i", "isnull", "none", nil),
		mk("f", ">", "float", func(l *model.Leaf) { l.FB = fb(1.75) }),
		mk("f", "isnull", "none", nil),
		mk("s", "=", "string", func(l *model.Leaf) { l.S = "a" }),
		mk("s", "!=", "string", func(l *model.Leaf) { l.S = "b" }),
		mk("e", "<", "string", func(l *model.Leaf) { l.S = "y"; l.Inverse = true }),
		mk("b", "=", "bool", func(l *model.Leaf) { l.B = true }),
		// up to here: size 8
		mk("i", "isnotnull", "none", nil),
		mk("f", "<=", "col", func(l *model.Leaf) { l.ArgCol = "f2"; l.Inverse = true }),
		mk("e", "isnull", "none", nil),
		mk("s", "in", "strings", func(l *model.Leaf) { l.List = []model.Cell{model.S(""), model.S("b")} }),
		mk("i", "fn:odd", "none", nil),
		mk("i", "!=", "col", func(l *model.Leaf) { l.ArgCol = "f2" }),
		mk("s", "isnotnull", "none", nil),
		mk("e", "!=", "col", func(l *model.Leaf) { l.ArgCol = "e2" }),
		// 16
		mk("f", "!=", "float", func(l *model.Leaf) { l.FB = fb(2) }),
		mk("s", "fn:nil", "none", nil),
		mk("i", "in", "ints", func(l *model.Leaf) { l.List = []model.Cell{model.I(2)}; l.Inverse = true }),
		mk("b", "!=", "col", func(l *model.Leaf) { l.ArgCol = "b2" }),
		mk("e", "ilike", "string", func(l *model.Leaf) { l.S = "X%" }),
		mk("f", "fn:nan", "none", func(l *model.Leaf) { l.Inverse = true }),
		mk("s", ">=", "col", func(l *model.Leaf) { l.ArgCol = "s2" }),
		mk("i", "all_bits", "int", func(l *model.Leaf) { l.I = 2 }),
		// 24
		mk("f", "isnotnull", "none", func(l *model.Leaf) { l.Inverse = true }),
		mk("e", "in", "strings", func(l *model.Leaf) { l.List = []model.Cell{model.S("z")} }),
		mk("s", "like", "string", func(l *model.Leaf) { l.S = "%" }),
		mk("i", "<", "float", func(l *model.Leaf) { l.FB = fb(2) }),
		mk("f", ">", "col", func(l *model.Leaf) { l.ArgCol = "i2" }),
		mk("e", "fn:nonempty", "none", nil),
		mk("b", "fn:id", "none", func(l *model.Leaf) { l.Inverse = true }),
		mk("s", "<", "string", func(l *model.Leaf) { l.S = "b"; l.Inverse = true }),
		// 32
		mk("d", "=", "string", func(l *model.Leaf) { l.S = "absent" }),
		mk("d", "!=", "string", func(l *model.Leaf) { l.S = "p" }),
		// 34
	}
	if size > len(core) {
		size = len(core)
	}
	return core[:size]
}

// treeShapes enumerates clause tree skeletons with exactly k leaf slots
// (slots numbered left to right) and Not-depth/nesting depth <= depth.
// A skeleton is a Clause whose leaves carry the slot number in Leaf.I.
func treeShapes(k, depth int) []model.Clause {
	memo := map[[2]int][]model.Clause{}
	var gen func(k, depth int) []model.Clause
	gen = func(k, depth int) []model.Clause {
		if depth < 0 || k < 1 {
			return nil
		}
		key := [2]int{k, depth}
		if r, ok := memo[key]; ok {
			return r
		}
		var out []model.Clause
		if k == 1 {
			out = append(out, model.Clause{Op: "leaf", Leaf: &model.Leaf{}})
		}
		if depth > 0 {
			// Not(sub)
			for _, s := range gen(k, depth-1) {
				out = append(out, model.Not(s))
			}
			// And/Or of >=1 parts (ordered compositions of k)
			var comps [][]int
			var rec func(rem int, cur []int)
			rec = func(rem int, cur []int) {
				if rem == 0 {
					comps = append(comps, cloneInts(cur))
					return
				}
				for p := 1; p <= rem; p++ {
					rec(rem-p, append(cur, p))
				}
			}
			rec(k, nil)
			for _, comp := range comps {
				if len(comp) == 1 && k > 1 {
					continue // And(x) with a composite x is covered by single-leaf wrappers below
				}
				// cartesian product of sub-shapes
				parts := [][]model.Clause{}
				ok := true
				for _, p := range comp {
					sub := gen(p, depth-1)
					if len(sub) == 0 {
						ok = false
						break
					}
					parts = append(parts, sub)
				}
				if !ok {
					continue
				}
				idx := make([]int, len(parts))
				for {
					subs := make([]model.Clause, len(parts))
					for i := range parts {
						subs[i] = parts[i][idx[i]]
					}
					out = append(out, model.And(subs...), model.Or(subs...))
					j := len(idx) - 1
					for j >= 0 {
						idx[j]++
						if idx[j] < len(parts[j]) {
							break
						}
						idx[j] = 0
						j--
					}
					if j < 0 {
						break
					}
				}
			}
		}
		memo[key] = out
		return out
	}
	return gen(k, depth)
}

// instantiate fills the leaf slots of a skeleton, left to right.
func instantiate(sk model.Clause, leaves []model.Leaf, pick []int) model.Clause {
	pos := 0
	var rec func(c model.Clause) model.Clause
	rec = func(c model.Clause) model.Clause {
		if c.Op == "leaf" {
			l := leaves[pick[pos]]
			pos++
			return model.LeafC(l)
		}
		n := model.Clause{Op: c.Op, Subs: make([]model.Clause, len(c.Subs))}
		for i, s := range c.Subs {
			n.Subs[i] = rec(s)
		}
		return n
	}
	return rec(sk)
}

type c02Env struct {
	frames []model.Frame
	real   [][]qframe.QFrame // [frame][shape]
	obs    [][]model.Frame
}

func newC02Env() *c02Env {
	e := &c02Env{frames: c02Frames()}
	for _, f := range e.frames {
		var rs []qframe.QFrame
		var os []model.Frame
		for s := 0; s < model.NShapes; s++ {
			q := model.BuildShape(f, s)
			o := model.ObserveAs(q, f)
			o.AdoptMeta(f)
			rs = append(rs, q)
			os = append(os, o)
		}
		e.real = append(e.real, rs)
		e.obs = append(e.obs, os)
	}
	return e
}

var c02env *c02Env

func c02Env_() *c02Env {
	if c02env == nil {
		c02env = newC02Env()
	}
	return c02env
}

// classifyFilter compares model and implementation; ok=true on agreement.
func compareFilter(in model.Frame, out model.Frame, c model.Clause, d model.Defects) string {
	ev := model.Evaluator{F: in, D: d}
	rows, err := ev.Filter(c)
	if err != nil {
		if out.Err {
			return ""
		}
		return fmt.Sprintf("model says invalid clause (%v) but Filter reported no error", err)
	}
	want := in.Rows(rows)
	return model.Diff(want, out)
}

func runFilterCase(c filterCase) *core.Failure {
	env := c02Env_()
	if c.FrameID >= len(env.frames) || c.Shape >= model.NShapes {
		return core.Failf("bad case")
	}
	qf := env.real[c.FrameID][c.Shape]
	in := env.obs[c.FrameID][c.Shape]
	if c.Battery == 3 {
		bf, decl := batteryFrame()
		q := model.BuildShape(bf, c.Shape)
		// an int column against a float column, on the frame and on a derived frame, before anything else
		cl := qframe.Or(qframe.Filter{Column: "n", Comparator: ">", Arg: types.ColumnName("a")}, qframe.Filter{Column: "a", Comparator: ">=", Arg: types.ColumnName("n")})
		if r := q.Filter(cl); r.Err != nil {
			return core.Failf("filter on the battery frame failed: %v", r.Err)
		}
		_ = q.Sort(qframe.Order{Column: "n"}).Filter(cl)
		return latentDeep(q, decl, "the battery frame ("+model.ShapeNames[c.Shape]+") after column-to-column filters")
	}
	if in.Err {
		return core.Failf("input frame could not be built: %s", in.ErrText)
	}
	clause := model.BuildClause(c.Clause, in.Kinds())
	res := qf.Filter(clause)
	out := model.Observe(res)
	d := compareFilter(in, out, c.Clause, model.Defects{})
	if d == "" {
		switch c.Battery {
		case 1:
			what := fmt.Sprintf("Filter(%s) on frame %d shape %s", c.Clause, c.FrameID, model.ShapeNames[c.Shape])
			if f := latentBattery(res, declOf(in), what); f != nil {
				return f
			}
			return bookkeepingBattery(res, what)
		case 2:
			return latentDeep(qf, declOf(in), fmt.Sprintf("frame %d shape %s after Filter(%s)", c.FrameID, model.ShapeNames[c.Shape], c.Clause))
		}
		return nil
	}
	fail := core.Failf("Filter(%s) on frame %d shape %s: %s\n input: %s\n   got: %s", c.Clause, c.FrameID, model.ShapeNames[c.Shape], d, in, out)
	if compareFilter(in, out, c.Clause, model.Defects{InverseOrderedDropsNull: true}) == "" {
		fail.Finding = "C02-inverse-ordered-null"
	}
	return fail
}

func c02Run(ctx *core.Ctx) {
	env := c02Env_()
	exec := func(c filterCase) {
		in := env.obs[c.FrameID][c.Shape]
		ctx.Exec(c, func() *core.Failure { return runFilterCase(c) })
		// non-trivial: the clause keeps some but not all rows (by the model)
		rows, err := model.Evaluator{F: in}.Filter(c.Clause)
		switch {
		case err != nil:
			ctx.Outcome("model-error")
		case len(rows) == 0:
			ctx.Outcome("none")
		case len(rows) == in.N:
			ctx.Outcome("all")
		default:
			ctx.Outcome("some")
			ctx.Nontrivial(fmt.Sprintf("%d/%s", c.FrameID, c.Clause))
		}
		if ctx.WantSample() && ctx.Index()%1013 == 7 {
			ctx.Sample(map[string]interface{}{"frame_id": c.FrameID, "shape": model.ShapeNames[c.Shape], "clause": c.Clause.String()})
		}
	}
	// tier A: every leaf alone, under Not, in single-element And/Or, on every frame and shape
	leaves := c02Leaves()
	for fi := 0; fi < len(env.frames)-1; fi++ {
		for _, l := range leaves {
			variants := []model.Clause{model.LeafC(l), model.Not(model.LeafC(l)), model.And(model.LeafC(l)), model.Or(model.LeafC(l)),
				model.Not(model.Not(model.LeafC(l))), model.Or(model.LeafC(l), model.LeafC(l)), model.And(model.NullClause(), model.LeafC(l)),
				// Null() = every row, also as a member of an Or
				model.Or(model.NullClause(), model.LeafC(l)), model.Or(model.LeafC(l), model.NullClause()), model.Not(model.Or(model.NullClause(), model.LeafC(l)))}
			for _, v := range variants {
				for s := 0; s < model.NShapes; s++ {
					if !ctx.Mine() {
						continue
					}
					exec(filterCase{FrameID: fi, Shape: s, Clause: v})
				}
			}
		}
	}
	// latent state: the result of every leaf on the small frames (battery), and the receivers themselves after a
	// column-to-column filter (deep battery); the same on the battery frame
	for fi := 0; fi < 5 && fi < len(env.frames)-1; fi++ {
		for li, l := range leaves {
			if ctx.Mine() {
				exec(filterCase{FrameID: fi, Shape: (li + fi) % model.NShapes, Clause: model.LeafC(l), Battery: 1})
			}
		}
		for s := 0; s < model.NShapes; s++ {
			for _, l := range leaves {
				if l.Col == "i" && l.Cmp == ">" && l.ArgCol == "f2" && !l.Inverse && ctx.Mine() {
					exec(filterCase{FrameID: fi, Shape: s, Clause: model.LeafC(l), Battery: 2})
				}
			}
		}
	}
	for s := 0; s < model.NShapes; s++ {
		if ctx.Mine() {
			exec(filterCase{FrameID: 0, Shape: s, Clause: model.NullClause(), Battery: 3})
		}
	}
	// big-enum layer: ordering and equality against constants at ranks around 127/128 and against the other column
	{
		bf := len(env.frames) - 1
		vals := env.frames[bf].Cols[0].EnumVals
		var bl []model.Leaf
		for _, cmp := range []string{"<", "<=", ">", ">=", "=", "!="} {
			for _, rank := range []int{0, 5, 126, 127, 128, 129, 150, 199} {
				for _, inv := range []bool{false, true} {
					l := lf("e", cmp, "string")
					l.S = vals[rank]
					l.Inverse = inv
					bl = append(bl, l)
				}
			}
			for _, inv := range []bool{false, true} {
				l := lf("e", cmp, "col")
				l.ArgCol = "e2"
				l.Inverse = inv
				bl = append(bl, l)
			}
		}
		in := lf("e", "in", "strings")
		in.List = []model.Cell{model.S(vals[127]), model.S(vals[128]), model.S(vals[199])}
		bl = append(bl, in)
		for _, l := range bl {
			for _, v := range []model.Clause{model.LeafC(l), model.Not(model.LeafC(l))} {
				for sh := 0; sh < model.NShapes; sh++ {
					if ctx.Mine() {
						exec(filterCase{FrameID: bf, Shape: sh, Clause: v})
					}
				}
			}
		}
	}
	// tier A2: every ordered pair of leaves under And / Or / Or-with-Not on frame 0
	for _, l1 := range leaves {
		for _, l2 := range leaves {
			for vi := 0; vi < 3; vi++ {
				if !ctx.Mine() {
					continue
				}
				var v model.Clause
				switch vi {
				case 0:
					v = model.And(model.LeafC(l1), model.LeafC(l2))
				case 1:
					v = model.Or(model.LeafC(l1), model.LeafC(l2))
				case 2:
					v = model.Or(model.Not(model.LeafC(l1)), model.LeafC(l2))
				}
				exec(filterCase{FrameID: 0, Shape: int(ctx.Index() % int64(model.NShapes)), Clause: v})
			}
		}
	}
	// tier B: all trees with <= K leaves over the core leaves
	type tierB struct{ k, depth, coreSize int }
	plan := []tierB{{1, 3, 34}, {2, 3, 34}, {3, 2, 16}}
	if !ctx.Quick() {
		plan = []tierB{{1, 3, 34}, {2, 3, 34}, {3, 3, 24}, {4, 2, 10}}
	}
	for _, p := range plan {
		shapes := treeShapes(p.k, p.depth)
		cl := c02Core(p.coreSize)
		ctx.Add(fmt.Sprintf("tree_skeletons_k%d", p.k), int64(len(shapes))/int64(ctx.NShards)+0)
		for _, sk := range shapes {
			forEachSeq(p.k, len(cl), func(pick []int) {
				if !ctx.Mine() {
					return
				}
				cls := instantiate(sk, cl, pick)
				shape := int(ctx.Index() % int64(model.NShapes))
				exec(filterCase{FrameID: 0, Shape: shape, Clause: cls})
			})
		}
	}
}

func init() {
	core.Register(&core.Check{
		ID:    "C02",
		Setup: func() { c02Env_() },
		Level: "model_checking",
		Rule: "case = (frame, index shape, clause tree). Tier A: every leaf of the ~600-leaf alphabet (all comparators x argument kinds x Inverse, per column type) alone and in 10 wrappers on 15 frames (five of 0-6 rows, ten of 8..129 rows around multiples of 8/16/64) x 8 shapes; " +
			"A2: every ordered pair of leaves under And/Or/Or(Not); B: every And/Or/Not tree with <=K leaf slots and bounded depth, every assignment of core leaves to the slots. " +
			"Non-trivial = the clause keeps some but not all rows according to the model; distinct by (frame, clause text).",
		Assumptions: []string{
			"row-wise reference evaluator written from the statement: null/NaN false except !=, in false on null, Not/Inverse = complement, Null() = all rows",
			"float constants against int columns are integral; bit masks non-negative; enum columns are declared (derived enums are C17)",
			"one designed 5-row frame (every comparator has <,=,> and null rows, one row null on both sides), 0-row, 1-row and duplicate-row frames, and a 6-row frame of extreme/negative/-0/Inf/prefix/non-ASCII values; other cell values are not explored",
		},
		Bound: map[string]string{
			"quick":    "tier A all leaves; A2 all ordered leaf pairs; B trees: k=1,2 depth<=3 over 32 core leaves, k=3 depth<=2 over 16",
			"thorough": "tier A; A2; B trees: k<=2 depth<=3 over 32, k=3 depth<=3 over 24, k=4 depth<=2 over 10",
		},
		Run:    c02Run,
		Replay: replayAs(runFilterCase),
	})
}
