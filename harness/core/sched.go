package core

import (
	"fmt"
)

// Cooperative scheduler for explorer E4: one goroutine per logical thread, one
// runs at a time, Yield hands control back. Executions are identified by the
// sequence of choices taken at the scheduling points; exploration is a DFS over
// choice sequences with iterative preemption bounding.

type SchedPoint struct {
	Enabled []int `json:"enabled"` // canonical order: the running thread first if still enabled, then ascending ids
	Chosen  int   `json:"chosen"`  // index into Enabled
	// RunningEnabled: the thread that ran before this point could have continued
	RunningEnabled bool `json:"running_enabled"`
}

type Execution struct {
	Points  []SchedPoint
	Choices []int
	// Deadlock is set when no thread was enabled although some had not finished (cannot happen with pure yields; kept for completeness)
	Deadlock bool
	// PanicMsg: a thread body panicked
	PanicMsg string
}

type thread struct {
	id      int
	wake    chan struct{}
	done    bool
	body    func(yield func())
	sched   *scheduler
	paniced string
}

type scheduler struct {
	threads []*thread
	back    chan int // thread id that yielded or finished
}

// RunSchedule executes the bodies under the choice prefix (an out-of-range
// choice is a hard error) and default choice 0 afterwards.
func RunSchedule(bodies []func(yield func()), prefix []int) (*Execution, error) {
	s := &scheduler{back: make(chan int)}
	for i, b := range bodies {
		s.threads = append(s.threads, &thread{id: i, wake: make(chan struct{}), body: b, sched: s})
	}
	for _, t := range s.threads {
		t := t
		go func() {
			<-t.wake // wait to be scheduled for the first time
			func() {
				defer func() {
					if r := recover(); r != nil {
						t.paniced = fmt.Sprint(r)
					}
				}()
				t.body(func() {
					s.back <- t.id
					<-t.wake
				})
			}()
			t.done = true
			s.back <- t.id
		}()
	}
	x := &Execution{}
	running := -1
	for {
		var enabled []int
		runningEnabled := false
		if running >= 0 && !s.threads[running].done {
			enabled = append(enabled, running)
			runningEnabled = true
		}
		for _, t := range s.threads {
			if !t.done && t.id != running {
				enabled = append(enabled, t.id)
			}
		}
		if len(enabled) == 0 {
			break
		}
		choice := 0
		if len(x.Points) < len(prefix) {
			choice = prefix[len(x.Points)]
			if choice < 0 || choice >= len(enabled) {
				// drain: let everything finish so no goroutine leaks, then report
				for _, id := range enabled {
					_ = id
				}
				return x, fmt.Errorf("replay diverged at point %d: choice %d but %d thread(s) enabled", len(x.Points), choice, len(enabled))
			}
		}
		x.Points = append(x.Points, SchedPoint{Enabled: enabled, Chosen: choice, RunningEnabled: runningEnabled})
		x.Choices = append(x.Choices, choice)
		next := enabled[choice]
		s.threads[next].wake <- struct{}{}
		id := <-s.back
		if id != next {
			return x, fmt.Errorf("scheduler invariant broken: thread %d reported while %d was running", id, next)
		}
		running = next
	}
	for _, t := range s.threads {
		if t.paniced != "" {
			x.PanicMsg = fmt.Sprintf("thread %d: %s", t.id, t.paniced)
		}
	}
	return x, nil
}

// preemptionsBefore counts the preemptions among the first n points.
func (x *Execution) preemptionsBefore(n int) int {
	c := 0
	for i := 0; i < n && i < len(x.Points); i++ {
		p := x.Points[i]
		if p.RunningEnabled && p.Chosen != 0 {
			c++
		}
	}
	return c
}

// Explore runs every execution of the bodies produced by mk (fresh bodies per
// execution) with at most bound preemptions (bound < 0: unbounded), calling
// check after each. It returns the number of executions and scheduling points.
func Explore(mk func() []func(yield func()), bound int, check func(x *Execution) bool) (executions, points int64, err error) {
	var rec func(prefix []int) bool
	rec = func(prefix []int) bool {
		x, e := RunSchedule(mk(), prefix)
		if e != nil {
			err = e
			return false
		}
		executions++
		points += int64(len(x.Points))
		if !check(x) {
			return false
		}
		for i := len(prefix); i < len(x.Points); i++ {
			p := x.Points[i]
			cost := x.preemptionsBefore(i)
			for alt := 1; alt < len(p.Enabled); alt++ {
				c := cost
				if p.RunningEnabled {
					c++ // switching away from a runnable thread is a preemption
				}
				if bound >= 0 && c > bound {
					continue
				}
				np := append(append([]int{}, x.Choices[:i]...), alt)
				if !rec(np) {
					return false
				}
			}
		}
		return true
	}
	rec(nil)
	return
}
