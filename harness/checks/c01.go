package checks

import (
	"bytes"
	"fmt"
	qcsv "github.com/tobgu/qframe/config/csv"
	"github.com/tobgu/qframe/function"
	"math"
	"sort"
	"strings"

	"github.com/tobgu/qframe"
	"github.com/tobgu/qframe/config/groupby"
	"github.com/tobgu/qframe/config/newqf"
	"github.com/tobgu/qframe/types"

	"verif/harness/core"
	"verif/harness/model"
)

// C01 — Frames are persistent: no operation alters any existing frame.
// Explorer E2: stateless depth-first search over histories; every member of the
// growing family is re-inspected after every step.

const (
	mFrame = iota
	mGrouper
	mView
)

type viewer interface {
	Len() int
	item(i int) string
}

type intV struct{ qframe.IntView }
type floatV struct{ qframe.FloatView }
type boolV struct{ qframe.BoolView }
type strV struct{ qframe.StringView }
type enumV struct{ qframe.EnumView }

func (v intV) item(i int) string   { return fmt.Sprint(v.ItemAt(i)) }
func (v floatV) item(i int) string { return model.CellString(model.Float, model.F(v.ItemAt(i))) }
func (v boolV) item(i int) string  { return fmt.Sprint(v.ItemAt(i)) }
func (v strV) item(i int) string   { return ps(v.ItemAt(i)) }
func (v enumV) item(i int) string  { return ps(v.ItemAt(i)) }

func ps(p *string) string {
	if p == nil {
		return "null"
	}
	return fmt.Sprintf("%q", *p)
}

type member struct {
	id     int
	kind   int
	qf     qframe.QFrame
	g      qframe.Grouper
	v      viewer
	digest string
	isErr  bool
	origin string
}

func (m *member) observe() string {
	switch m.kind {
	case mFrame:
		o := model.Observe(m.qf)
		if o.Err {
			return "ERR:" + o.ErrText
		}
		// ColumnTypeMap is the public observer that iterates the by-name map
		tm := m.qf.ColumnTypeMap()
		keys := make([]string, 0, len(tm))
		for k, t := range tm {
			keys = append(keys, k+":"+string(t))
		}
		sort.Strings(keys)
		return o.String() + " || typemap " + strings.Join(keys, ",")
	case mGrouper:
		if m.g.Err != nil {
			return "GERR:" + m.g.Err.Error()
		}
		fs, err := m.g.QFrames()
		if err != nil {
			return "GERR2:" + err.Error()
		}
		var sb strings.Builder
		sb.WriteString("grouper{")
		for _, f := range fs {
			sb.WriteString(model.Observe(f).String())
			sb.WriteString(" ;; ")
		}
		sb.WriteString("}")
		return sb.String()
	default:
		var sb strings.Builder
		fmt.Fprintf(&sb, "view(%d)[", m.v.Len())
		for i := 0; i < m.v.Len(); i++ {
			sb.WriteString(m.v.item(i))
			sb.WriteByte(' ')
		}
		sb.WriteByte(']')
		return sb.String()
	}
}

func newFrameMember(qf qframe.QFrame, origin string) *member {
	m := &member{kind: mFrame, qf: qf, origin: origin}
	m.digest = m.observe()
	m.isErr = qf.Err != nil
	return m
}

type histOp struct {
	name  string
	on    int
	apply func(e *histEnv, fam []*member, m *member) []*member
}

// histEnv owns the argument objects handed to the operations (they must stay
// unchanged too) and the caller-owned slices of the initial frame.
type histEnv struct {
	clauses   map[string]qframe.FilterClause
	orders1   []qframe.Order
	orders2   []qframe.Order
	instr     map[string][]qframe.Instruction
	selectCol []string
	dropCol   []string
	// one key list handed to GroupBy and to Distinct (several type classes, most expensive first)
	sharedKeys []string
	selfCopy   []qframe.Instruction
	aggs       []qframe.Aggregation
	ownedInt   []int
	ownedFlt   []float64
	ownedBool  []bool
	ownedStr   []*string
	exprFlat   qframe.Expression
	exprNest   qframe.Expression
	exprAbs    qframe.Expression
	argDigest  string
}

func (e *histEnv) digestArgs() string {
	var sb strings.Builder
	for _, k := range []string{"leaf", "or", "notand", "fn", "andnull", "nested", "colIF", "colFI", "orbool", "orbool2", "allnull"} {
		sb.WriteString(e.clauses[k].String())
		sb.WriteByte(';')
	}
	fmt.Fprintf(&sb, "%v;%v;%v;%v;%v;", e.orders1, e.orders2, e.selectCol, e.dropCol, e.sharedKeys)
	for _, in := range e.selfCopy {
		fmt.Fprintf(&sb, "%s<-%s,%s;", in.DstCol, in.SrcCol1, in.SrcCol2)
	}
	for _, k := range []string{"const", "fn1", "fn2", "upper", "upperE", "fconst"} {
		for _, in := range e.instr[k] {
			fmt.Fprintf(&sb, "%s<-%s,%s;", in.DstCol, in.SrcCol1, in.SrcCol2)
		}
	}
	for _, a := range e.aggs {
		fmt.Fprintf(&sb, "%s/%s;", a.Column, a.As)
	}
	fmt.Fprintf(&sb, "%v;%v;%v;", e.ownedInt, e.ownedFlt, e.ownedBool)
	for _, p := range e.ownedStr {
		sb.WriteString(ps(p))
	}
	return sb.String()
}

func newHistEnv() *histEnv {
	e := &histEnv{}
	nonempty := func(s *string) bool { return s != nil && *s != "" }
	e.clauses = map[string]qframe.FilterClause{
		"leaf":   qframe.Filter{Column: "i", Comparator: ">", Arg: 1},
		"or":     qframe.Or(qframe.Filter{Column: "f", Comparator: "isnull"}, qframe.Filter{Column: "s", Comparator: "=", Arg: "a"}),
		"notand": qframe.Not(qframe.And(qframe.Filter{Column: "i", Comparator: ">", Arg: 0}, qframe.Filter{Column: "b", Comparator: "=", Arg: true})),
		"fn":     qframe.Filter{Column: "s", Comparator: nonempty},
		// sub-clauses that hand their receiver through unchanged before a filtering leaf
		"andnull": qframe.And(qframe.Null(), qframe.Filter{Column: "i", Comparator: ">", Arg: 1}),
		"allnull": qframe.And(qframe.Null(), qframe.Or(qframe.Null())),
		"nested":  qframe.And(qframe.Or(qframe.Null()), qframe.And(qframe.Null(), qframe.Filter{Column: "k", Comparator: "=", Arg: 1}), qframe.Filter{Column: "i", Comparator: "<", Arg: 3}),
		// column-to-column comparisons across int and float (one side is promoted for the comparison)
		// an Or whose first member is a plain test of the bool column (and the same members the other way round)
		"orbool":  qframe.Or(qframe.Filter{Column: "b", Comparator: "=", Arg: true}, qframe.Filter{Column: "i", Comparator: ">", Arg: 0}),
		"orbool2": qframe.Or(qframe.Filter{Column: "i", Comparator: ">", Arg: 0}, qframe.Filter{Column: "b", Comparator: "=", Arg: true}),
		"colIF":   qframe.Filter{Column: "i", Comparator: ">", Arg: types.ColumnName("f")},
		"colFI":   qframe.Filter{Column: "f", Comparator: "<=", Arg: types.ColumnName("k")},
	}
	e.orders1 = []qframe.Order{{Column: "k"}}
	e.orders2 = []qframe.Order{{Column: "e", Reverse: true, NullLast: true}, {Column: "i"}}
	e.selectCol = []string{"s", "i", "k"}
	e.dropCol = []string{"f"}
	e.sharedKeys = []string{"s", "b", "f", "k"}
	// a copy of a column onto itself (documented as a no-op) followed by instructions that overwrite it
	e.selfCopy = []qframe.Instruction{{Fn: types.ColumnName("i"), DstCol: "i"}, {Fn: 7, DstCol: "i"},
		{Fn: func(x int) int { return x - 1 }, DstCol: "i", SrcCol1: "i"}, {Fn: "ToUpper", DstCol: "s", SrcCol1: "s"}}
	e.instr = map[string][]qframe.Instruction{
		"const":  {{Fn: 7, DstCol: "i"}},
		"fn1":    {{Fn: func(x int) int { return x + 1 }, DstCol: "i", SrcCol1: "i"}},
		"fn2":    {{Fn: func(x, y int) int { return x*10 + y }, DstCol: "n2", SrcCol1: "i", SrcCol2: "k"}},
		"upper":  {{Fn: "ToUpper", DstCol: "s", SrcCol1: "s"}},
		"upperE": {{Fn: "ToUpper", DstCol: "e", SrcCol1: "e"}},
		"fconst": {{Fn: 9, DstCol: "i"}},
	}
	e.aggs = []qframe.Aggregation{{Fn: "sum", Column: "i"}, {Fn: "count", Column: "s", As: "cnt"},
		{Fn: func(v []float64) float64 { return float64(len(v)) }, Column: "f", As: "fl"}}
	e.exprFlat = qframe.Expr("+", types.ColumnName("i"), types.ColumnName("k"))
	e.exprNest = qframe.Expr("*", qframe.Expr("+", types.ColumnName("i"), 1), types.ColumnName("k"))
	e.exprAbs = qframe.Expr("abs", types.ColumnName("i"))
	return e
}

func sptr(s string) *string { return &s }

// declared values of the enum column e in the initial frames
var c01EnumVals = []string{"hi", "HI", "Hi", "lo", "mid"}

// initial frames
func (e *histEnv) initial(id int) qframe.QFrame {
	// "hi" and "Hi" differ only in case: they become one value under ToUpper
	enums := newqf.Enums(map[string][]string{"e": c01EnumVals})
	switch id {
	case 0: // five types, nulls/NaN, ties
		return qframe.New(map[string]interface{}{
			"i": []int{3, 1, 2, 1, 0},
			"f": []float64{1.5, math.NaN(), -2, 1.5, math.Copysign(0, -1)},
			"b": []bool{true, false, true, true, false},
			"s": []*string{sptr("a"), nil, sptr(""), sptr("b"), sptr("a")},
			"e": []*string{sptr("lo"), sptr("hi"), nil, sptr("HI"), sptr("lo")},
			"k": []int{1, 0, 1, 0, 1},
		}, enums)
	case 1: // zero rows
		return qframe.New(map[string]interface{}{
			"i": []int{}, "f": []float64{}, "b": []bool{}, "s": []*string{}, "e": []*string{}, "k": []int{},
		}, enums)
	case 2: // one row
		return qframe.New(map[string]interface{}{
			"i": []int{2}, "f": []float64{math.NaN()}, "b": []bool{true}, "s": []*string{nil}, "e": []*string{sptr("mid")}, "k": []int{0},
		}, enums)
	case 4: // 40 rows, 20 distinct keys k (more groups than any small-size shortcut), ties in every column
		n := 40
		is, fs, bs, ss, es, ks := make([]int, n), make([]float64, n), make([]bool, n), make([]*string, n), make([]*string, n), make([]int, n)
		evs := []string{"lo", "hi", "Hi", "HI"}
		for r := 0; r < n; r++ {
			is[r] = (r * 7) % 11
			fs[r] = float64((r*5)%9) / 2
			if r%13 == 6 {
				fs[r] = math.NaN()
			}
			bs[r] = r%3 == 0
			if r%9 != 4 {
				ss[r] = sptr(string(rune('a' + (r*3)%5)))
			}
			if r%8 != 5 {
				es[r] = sptr(evs[(r*3)%4])
			}
			ks[r] = (r * 13) % 20
		}
		return qframe.New(map[string]interface{}{"i": is, "f": fs, "b": bs, "s": ss, "e": es, "k": ks}, enums)
	case 5: // duplicate rows (A, A, A, B): Slice(0,2) and Slice(1,3) show equal cells through different physical rows
		return qframe.New(map[string]interface{}{
			"i": []int{2, 2, 2, 0},
			"f": []float64{0.5, 0.5, 0.5, math.NaN()},
			"b": []bool{true, true, true, false},
			"s": []*string{sptr("a"), sptr("a"), sptr("a"), nil},
			"e": []*string{sptr("lo"), sptr("lo"), sptr("lo"), nil},
			"k": []int{1, 1, 1, 0},
		}, enums)
	default: // caller-owned slices: qframe stores []int/[]float64/[]bool without copying
		e.ownedInt = []int{2, 2, 5, 0}
		e.ownedFlt = []float64{math.Copysign(0, -1), math.NaN(), 0.5, 0}
		e.ownedBool = []bool{false, true, true, false}
		e.ownedStr = []*string{sptr("x"), sptr(""), nil, sptr("x")}
		return qframe.New(map[string]interface{}{
			"i": e.ownedInt, "f": e.ownedFlt, "b": e.ownedBool, "s": e.ownedStr,
			"e": []*string{sptr("mid"), nil, sptr("hi"), sptr("Hi")}, "k": []int{0, 0, 1, 1},
		}, enums)
	}
}

func frameOp(name string, f func(e *histEnv, qf qframe.QFrame) qframe.QFrame) histOp {
	return histOp{name: name, on: mFrame, apply: func(e *histEnv, fam []*member, m *member) []*member {
		return []*member{newFrameMember(f(e, m.qf), name)}
	}}
}

func observerOp(name string, f func(e *histEnv, fam []*member, qf qframe.QFrame)) histOp {
	return histOp{name: name, on: mFrame, apply: func(e *histEnv, fam []*member, m *member) []*member {
		f(e, fam, m.qf)
		return nil
	}}
}

func viewOp(name string, f func(qf qframe.QFrame) (viewer, error)) histOp {
	return histOp{name: name, on: mFrame, apply: func(e *histEnv, fam []*member, m *member) []*member {
		v, err := f(m.qf)
		if err != nil {
			return nil
		}
		nm := &member{kind: mView, v: v, origin: name}
		nm.digest = nm.observe()
		return []*member{nm}
	}}
}

func c01Ops() []histOp {
	ops := []histOp{
		frameOp("Filter(leaf)", func(e *histEnv, q qframe.QFrame) qframe.QFrame { return q.Filter(e.clauses["leaf"]) }),
		frameOp("Filter(or)", func(e *histEnv, q qframe.QFrame) qframe.QFrame { return q.Filter(e.clauses["or"]) }),
		frameOp("Filter(not-and)", func(e *histEnv, q qframe.QFrame) qframe.QFrame { return q.Filter(e.clauses["notand"]) }),
		frameOp("Filter(fn)", func(e *histEnv, q qframe.QFrame) qframe.QFrame { return q.Filter(e.clauses["fn"]) }),
		frameOp("Filter(And(Null,leaf))", func(e *histEnv, q qframe.QFrame) qframe.QFrame { return q.Filter(e.clauses["andnull"]) }),
		frameOp("Filter(And(Or(Null),And(Null,leaf),leaf))", func(e *histEnv, q qframe.QFrame) qframe.QFrame { return q.Filter(e.clauses["nested"]) }),
		frameOp("Filter(Or(b=true, i>0))", func(e *histEnv, q qframe.QFrame) qframe.QFrame { return q.Filter(e.clauses["orbool"]) }),
		frameOp("Filter(Or(i>0, b=true))", func(e *histEnv, q qframe.QFrame) qframe.QFrame { return q.Filter(e.clauses["orbool2"]) }),
		frameOp("Eval(cst=5)", func(e *histEnv, q qframe.QFrame) qframe.QFrame { return q.Eval("cst", qframe.Val(5)) }),
		frameOp("Eval(cstf=0.5)", func(e *histEnv, q qframe.QFrame) qframe.QFrame { return q.Eval("cstf", qframe.Val(0.5)) }),
		frameOp("Filter(i>col f)", func(e *histEnv, q qframe.QFrame) qframe.QFrame { return q.Filter(e.clauses["colIF"]) }),
		frameOp("Filter(f<=col k)", func(e *histEnv, q qframe.QFrame) qframe.QFrame { return q.Filter(e.clauses["colFI"]) }),
		frameOp("Sort(k)", func(e *histEnv, q qframe.QFrame) qframe.QFrame { return q.Sort(e.orders1...) }),
		frameOp("Sort(e desc nulllast,i)", func(e *histEnv, q qframe.QFrame) qframe.QFrame { return q.Sort(e.orders2...) }),
		frameOp("Slice(interior)", func(e *histEnv, q qframe.QFrame) qframe.QFrame {
			n := q.Len()
			if n >= 2 {
				return q.Slice(1, n-1)
			}
			return q.Slice(0, n)
		}),
		frameOp("Slice(prefix)", func(e *histEnv, q qframe.QFrame) qframe.QFrame {
			n := q.Len()
			if n > 2 {
				n = 2
			}
			return q.Slice(0, n)
		}),
		frameOp("Select(s,i,k)", func(e *histEnv, q qframe.QFrame) qframe.QFrame { return q.Select(e.selectCol...) }),
		frameOp("Drop(f)", func(e *histEnv, q qframe.QFrame) qframe.QFrame { return q.Drop(e.dropCol...) }),
		frameOp("Copy(c2<-i)", func(e *histEnv, q qframe.QFrame) qframe.QFrame { return q.Copy("c2", "i") }),
		frameOp("Copy(k<-i)", func(e *histEnv, q qframe.QFrame) qframe.QFrame { return q.Copy("k", "i") }),
		frameOp("Apply(const->i)", func(e *histEnv, q qframe.QFrame) qframe.QFrame { return q.Apply(e.instr["const"]...) }),
		frameOp("Apply(fn1 i->i)", func(e *histEnv, q qframe.QFrame) qframe.QFrame { return q.Apply(e.instr["fn1"]...) }),
		frameOp("Apply(fn2 i,k->n2)", func(e *histEnv, q qframe.QFrame) qframe.QFrame { return q.Apply(e.instr["fn2"]...) }),
		frameOp("Apply(ToUpper s->s)", func(e *histEnv, q qframe.QFrame) qframe.QFrame { return q.Apply(e.instr["upper"]...) }),
		frameOp("Apply(ToUpper e->e)", func(e *histEnv, q qframe.QFrame) qframe.QFrame { return q.Apply(e.instr["upperE"]...) }),
		frameOp("FilteredApply(i>1,const->i)", func(e *histEnv, q qframe.QFrame) qframe.QFrame {
			return q.FilteredApply(e.clauses["leaf"], e.instr["fconst"]...)
		}),
		// clauses that keep every row (the result of filtering with them IS the receiver)
		frameOp("FilteredApply(Null, fn i->i)", func(e *histEnv, q qframe.QFrame) qframe.QFrame {
			return q.FilteredApply(qframe.Null(), e.instr["fn1"]...)
		}),
		frameOp("FilteredApply(And(Null,Or(Null)), const->i, ToUpper s->s)", func(e *histEnv, q qframe.QFrame) qframe.QFrame {
			return q.FilteredApply(e.clauses["allnull"], append(append([]qframe.Instruction{}, e.instr["fconst"]...), e.instr["upper"]...)...)
		}),
		frameOp("Filter(Null)", func(e *histEnv, q qframe.QFrame) qframe.QFrame { return q.Filter(qframe.Null()) }),
		frameOp("Eval(ev=i+k)", func(e *histEnv, q qframe.QFrame) qframe.QFrame { return q.Eval("ev", e.exprFlat) }),
		frameOp("Eval(ev=(i+1)*k)", func(e *histEnv, q qframe.QFrame) qframe.QFrame { return q.Eval("ev", e.exprNest) }),
		frameOp("Eval(i=abs(i))", func(e *histEnv, q qframe.QFrame) qframe.QFrame { return q.Eval("i", e.exprAbs) }),
		// the exported string functions on the enum column (through Eval and through Apply)
		frameOp("Eval(u=lower(upper(e)))", func(e *histEnv, q qframe.QFrame) qframe.QFrame {
			return q.Eval("u", qframe.Expr("lower", qframe.Expr("upper", types.ColumnName("e"))))
		}),
		frameOp("Apply(function.UpperS e->e)", func(e *histEnv, q qframe.QFrame) qframe.QFrame {
			return q.Apply(qframe.Instruction{Fn: function.UpperS, DstCol: "e", SrcCol1: "e"})
		}),
		frameOp("Apply(function.ConcatS e,s->n2)", func(e *histEnv, q qframe.QFrame) qframe.QFrame {
			return q.Apply(qframe.Instruction{Fn: function.ConcatS, DstCol: "n2", SrcCol1: "e", SrcCol2: "s"})
		}),
		frameOp("WithRowNums(rn)", func(e *histEnv, q qframe.QFrame) qframe.QFrame { return q.WithRowNums("rn") }),
		frameOp("Distinct(k)", func(e *histEnv, q qframe.QFrame) qframe.QFrame { return q.Distinct(groupby.Columns("k")) }),
		frameOp("Distinct()", func(e *histEnv, q qframe.QFrame) qframe.QFrame { return q.Distinct() }),
		frameOp("Distinct(shared key list s,b,f,k)", func(e *histEnv, q qframe.QFrame) qframe.QFrame {
			return q.Distinct(groupby.Columns(e.sharedKeys...))
		}),
		{name: "GroupBy(shared key list s,b,f,k)", on: mFrame, apply: func(e *histEnv, fam []*member, m *member) []*member {
			nm := &member{kind: mGrouper, g: m.qf.GroupBy(groupby.Columns(e.sharedKeys...)), origin: "GroupBy(shared key list)"}
			nm.digest = nm.observe()
			nm.isErr = nm.g.Err != nil
			return []*member{nm}
		}},
		frameOp("Apply(i<-i self copy, const->i, fn i->i, ToUpper s->s)", func(e *histEnv, q qframe.QFrame) qframe.QFrame {
			return q.Apply(e.selfCopy...)
		}),
		frameOp("FilteredApply(i>1, i<-i self copy, const->i, fn i->i, ToUpper s->s)", func(e *histEnv, q qframe.QFrame) qframe.QFrame {
			return q.FilteredApply(e.clauses["leaf"], e.selfCopy...)
		}),
		{name: "GroupBy(k)", on: mFrame, apply: func(e *histEnv, fam []*member, m *member) []*member {
			nm := &member{kind: mGrouper, g: m.qf.GroupBy(groupby.Columns("k")), origin: "GroupBy(k)"}
			nm.digest = nm.observe()
			nm.isErr = nm.g.Err != nil
			return []*member{nm}
		}},
		{name: "GroupBy(f,null)", on: mFrame, apply: func(e *histEnv, fam []*member, m *member) []*member {
			nm := &member{kind: mGrouper, g: m.qf.GroupBy(groupby.Columns("f"), groupby.Null(true)), origin: "GroupBy(f,null)"}
			nm.digest = nm.observe()
			nm.isErr = nm.g.Err != nil
			return []*member{nm}
		}},
		{name: "GroupBy()", on: mFrame, apply: func(e *histEnv, fam []*member, m *member) []*member {
			nm := &member{kind: mGrouper, g: m.qf.GroupBy(), origin: "GroupBy()"}
			nm.digest = nm.observe()
			nm.isErr = nm.g.Err != nil
			return []*member{nm}
		}},
		observerOp("ToCSV", func(e *histEnv, fam []*member, q qframe.QFrame) { var b bytes.Buffer; _ = q.ToCSV(&b) }),
		observerOp("ToCSV(Columns reversed, no header)", func(e *histEnv, fam []*member, q qframe.QFrame) {
			names := q.ColumnNames()
			for i, j := 0, len(names)-1; i < j; i, j = i+1, j-1 {
				names[i], names[j] = names[j], names[i]
			}
			var b bytes.Buffer
			_ = q.ToCSV(&b, qcsv.Columns(names), qcsv.Header(false))
		}),
		observerOp("ToJSON", func(e *histEnv, fam []*member, q qframe.QFrame) { var b bytes.Buffer; _ = q.ToJSON(&b) }),
		observerOp("String", func(e *histEnv, fam []*member, q qframe.QFrame) { _ = q.String() }),
		observerOp("Equals(first)", func(e *histEnv, fam []*member, q qframe.QFrame) {
			if fam[0].kind == mFrame {
				q.Equals(fam[0].qf)
				fam[0].qf.Equals(q)
			}
		}),
		viewOp("IntView(i)", func(q qframe.QFrame) (viewer, error) { v, err := q.IntView("i"); return intV{v}, err }),
		viewOp("FloatView(f)", func(q qframe.QFrame) (viewer, error) { v, err := q.FloatView("f"); return floatV{v}, err }),
		viewOp("BoolView(b)", func(q qframe.QFrame) (viewer, error) { v, err := q.BoolView("b"); return boolV{v}, err }),
		viewOp("StringView(s)", func(q qframe.QFrame) (viewer, error) { v, err := q.StringView("s"); return strV{v}, err }),
		viewOp("EnumView(e)", func(q qframe.QFrame) (viewer, error) { v, err := q.EnumView("e"); return enumV{v}, err }),
		// grouper operations
		{name: "Aggregate(sum i,count,fn f)", on: mGrouper, apply: func(e *histEnv, fam []*member, m *member) []*member {
			return []*member{newFrameMember(m.g.Aggregate(e.aggs...), "Aggregate")}
		}},
		{name: "Aggregate(functions that sort and overwrite their argument)", on: mGrouper, apply: func(e *histEnv, fam []*member, m *member) []*member {
			return []*member{newFrameMember(m.g.Aggregate(
				qframe.Aggregation{Fn: func(v []int) int {
					sort.Ints(v)
					r := 0
					if len(v) > 0 {
						r = v[len(v)/2]
					}
					for i := range v {
						v[i] = -99
					}
					return r
				}, Column: "i", As: "med"},
				qframe.Aggregation{Fn: func(v []float64) float64 {
					for i := range v {
						v[i] = 77
					}
					return float64(len(v))
				}, Column: "f", As: "fl"},
				qframe.Aggregation{Fn: func(v []bool) bool {
					for i := range v {
						v[i] = !v[i]
					}
					return len(v) > 1
				}, Column: "b", As: "bb"},
				qframe.Aggregation{Fn: func(v []*string) *string {
					for i := range v {
						v[i] = nil
					}
					return nil
				}, Column: "s", As: "ss"}), "Aggregate(scribbling)")}
		}},
		{name: "QFrames", on: mGrouper, apply: func(e *histEnv, fam []*member, m *member) []*member {
			fs, err := m.g.QFrames()
			if err != nil {
				return nil
			}
			var out []*member
			for i, f := range fs {
				if i >= 2 {
					break
				}
				out = append(out, newFrameMember(f, fmt.Sprintf("QFrames[%d]", i)))
			}
			return out
		}},
		// view operation: Slice() returns a copy; scribbling on the copy must not reach the frame
		{name: "View.Slice+scribble", on: mView, apply: func(e *histEnv, fam []*member, m *member) []*member {
			switch v := m.v.(type) {
			case intV:
				s := v.Slice()
				for i := range s {
					s[i] = -777
				}
			case floatV:
				s := v.Slice()
				for i := range s {
					s[i] = -777
				}
			case boolV:
				s := v.Slice()
				for i := range s {
					s[i] = !s[i]
				}
			case strV:
				s := v.Slice()
				for i := range s {
					s[i] = nil
				}
			case enumV:
				s := v.Slice()
				for i := range s {
					s[i] = nil
				}
			}
			return nil
		}},
	}
	return ops
}

type histStep struct {
	Member int    `json:"member"`
	Op     int    `json:"op"`
	Name   string `json:"name,omitempty"`
}

type histCase struct {
	Init  int        `json:"init"`
	Steps []histStep `json:"steps"`
	// Full: Steps is the complete search history (every step the explorer
	// executed since the initial frame, siblings included); Member then refers
	// to the creation number of the member in a family that is never truncated.
	Full bool `json:"full,omitempty"`
}

// verify re-inspects every member and the argument objects.
func verifyFamily(e *histEnv, fam []*member, path []histStep) *core.Failure {
	for i, m := range fam {
		if now := m.observe(); now != m.digest {
			return core.Failf("member %d (%s) changed after path %s:\n at creation: %s\n        now: %s", i, m.origin, pathString(path), m.digest, now)
		}
	}
	if now := e.digestArgs(); now != e.argDigest {
		return core.Failf("an argument object or caller-owned slice changed after path %s:\n before: %s\n    now: %s", pathString(path), e.argDigest, now)
	}
	return nil
}

func pathString(p []histStep) string {
	var parts []string
	for _, s := range p {
		parts = append(parts, fmt.Sprintf("m%d.%s", s.Member, s.Name))
	}
	return strings.Join(parts, " -> ")
}

// runHistCase replays one path on fresh objects, checking after every step.
func runHistCase(c histCase) *core.Failure {
	e := newHistEnv()
	ops := c01Ops()
	fam := []*member{newFrameMember(e.initial(c.Init), "initial")}
	e.argDigest = e.digestArgs()
	for si, s := range c.Steps {
		if s.Member >= len(fam) || s.Op >= len(ops) {
			return core.Failf("replay diverged: step %d refers to member %d / op %d", si, s.Member, s.Op)
		}
		m := fam[s.Member]
		if ops[s.Op].on != m.kind {
			return core.Failf("replay diverged: op %s not applicable to member %d", ops[s.Op].name, s.Member)
		}
		fam = append(fam, ops[s.Op].apply(e, fam, m)...)
		shown := c.Steps[:si+1]
		if c.Full && len(shown) > 6 {
			shown = shown[len(shown)-6:]
		}
		if f := verifyFamily(e, fam, shown); f != nil {
			if c.Full {
				f.Msg = fmt.Sprintf("(full search history of %d steps; last steps shown) ", si+1) + f.Msg
			}
			return f
		}
	}
	return nil
}

func c01Run(ctx *core.Ctx) {
	depth := 3
	if !ctx.Quick() {
		depth = 4
	}
	ops := c01Ops()
	fullDepth := depth
	for _, init := range []int{0, 1, 2, 3, 4} {
		depth = fullDepth
		if init == 4 {
			depth = fullDepth - 1 // the 40-row frame: QFrames alone adds 20 members per step
		}
		e := newHistEnv()
		fam := []*member{newFrameMember(e.initial(init), "initial")}
		fam[0].id = 0
		created := 1
		var log []histStep // every executed step, members by creation number
		e.argDigest = e.digestArgs()
		var path []histStep
		stop := false
		var dfs func(d int)
		dfs = func(d int) {
			if d == depth || stop {
				return
			}
			nfam := len(fam)
			for mi := 0; mi < nfam; mi++ {
				m := fam[mi]
				for oi, op := range ops {
					if op.on != m.kind || stop {
						continue
					}
					// operations on errored members are C10's subject, except that looking at one (ToCSV,
					// ToJSON, String, Equals) must not change it or any other member either
					if m.isErr && !(strings.HasPrefix(op.name, "To") || op.name == "String" || strings.HasPrefix(op.name, "Equals")) {
						continue
					}
					// shard on the depth-2 edge; depth-1 edges are executed by every worker
					if d == 1 || (d == 0 && depth == 1) {
						if !ctx.Mine() {
							continue
						}
					}
					if ctx.Tick() {
						stop = true
						return
					}
					path = append(path, histStep{Member: mi, Op: oi, Name: op.name})
					var added []*member
					if len(log) < 4000000 {
						log = append(log, histStep{Member: m.id, Op: oi, Name: op.name})
					}
					fail := core.Guard(func() *core.Failure {
						added = op.apply(e, fam, m)
						for _, a := range added {
							a.id = created
							created++
						}
						fam = append(fam, added...)
						return verifyFamily(e, fam, path)
					})
					count := d >= 1 || ctx.Shard == 0
					if count {
						ctx.Add("evaluations", 1)
						ctx.Add("transitions", 1)
						ctx.Add("members_reinspected", int64(len(fam)))
					}
					if fail != nil {
						short := histCase{Init: init, Steps: append([]histStep(nil), path...)}
						if core.Guard(func() *core.Failure { return runHistCase(short) }) != nil {
							ctx.Report(short, fail)
						} else {
							// only reproducible together with the sibling steps executed before it:
							// report the complete search history, which is itself a legal history
							ctx.Report(histCase{Init: init, Steps: log, Full: true}, fail)
						}
						stop = true
					} else {
						if count {
							if d+1 == depth {
								ctx.Add("states", 1) // complete paths
								ctx.Add("traces", 1)
							}
							for _, a := range added {
								ctx.Nontrivial(a.digest)
							}
							if len(added) == 0 {
								ctx.Outcome("observer")
							} else if added[0].isErr {
								ctx.Outcome("result-is-error")
							} else {
								ctx.Outcome("new-" + []string{"frame", "grouper", "view"}[added[0].kind])
							}
							if d+1 == depth && ctx.WantSample() && ctx.Index()%7 == 3 {
								ctx.Sample(map[string]interface{}{"init": init, "path": pathString(path)})
							}
						}
						dfs(d + 1)
					}
					fam = fam[:nfam]
					path = path[:len(path)-1]
				}
			}
		}
		dfs(0)
	}
}

func init() {
	core.Register(&core.Check{
		ID:    "C01",
		Level: "model_checking",
		Rule: "state = family of live frames/groupers/views reached by a path of (member, operation) steps from one of 4 initial frames; every path up to the depth bound is executed on the real objects and after every step every member " +
			"(cells via typed views, names, types, Len, Err; QFrames of groupers; ItemAt of views) and every argument object / caller-owned slice is compared with its observation at creation. " +
			"states = complete paths, transitions = steps. Non-trivial/distinct = distinct observations of members created (digest of the full observation).",
		Assumptions: []string{
			"differential oracle only (observation now = observation at creation); no reference model involved",
			"children of a search node reuse the parent's live objects, which is sound because the invariant checked is that they did not change; a failure is re-executed from scratch in a fresh process before it is reported",
			"operations on members whose Err is set are not expanded (C10); Append and Rolling are not part of the alphabet",
		},
		Bound: map[string]string{
			"quick":    "all paths of depth <= 3 over 40 operations from 4 initial frames (0, 1, 4, 5 rows; one built on caller-owned slices)",
			"thorough": "all paths of depth <= 4",
		},
		Run:    c01Run,
		Replay: replayAs(runHistCase),
	})
}
