package checks

import (
	"bytes"
	"encoding/json"
	"fmt"
	"math"
	"strconv"
	"strings"
	"unicode/utf8"

	"github.com/tobgu/qframe"
	"github.com/tobgu/qframe/config/groupby"
	"github.com/tobgu/qframe/config/newqf"

	"verif/harness/core"
	"verif/harness/model"
)

// C14 — ToJSON emits valid JSON that denotes the frame; ReadJSON inverts it.

type jsonCase struct {
	// Rows/Pad > 0: generated frame of Rows rows (int id, string s of Pad+row%3 bytes) for the output-size sweep
	Rows  int         `json:"rows,omitempty"`
	Pad   int         `json:"pad,omitempty"`
	Frame model.Frame `json:"frame"`
	Shape int         `json:"shape"`
	// NameHex/StrHex carry raw bytes (JSON cannot carry invalid UTF-8): when set they override
	// the name of column 0 / the non-null string cells of column 0 (joined by 00ff00 separators are not used; one per cell)
	NameHex string   `json:"name_hex,omitempty"`
	StrHex  []string `json:"str_hex,omitempty"`
	// ConstEnum: the frame is {s: ConstString(StrHex[0]) x 2 as a derived enum, id: 0,1} built directly with New
	ConstEnum bool `json:"const_enum,omitempty"`
	// AggAs: the frame written is Build(frame).GroupBy(id).Aggregate(count of column 0 As <AggAs>, max id As "m"):
	// columns renamed by an aggregation
	AggAs string `json:"agg_as,omitempty"`
	// RunePad > 0: the frame is {s: ["x" * RunePad + StrHex[0] + "t", StrHex[0] + "u"], id: [0, 1]}: a multi-byte
	// character at a chosen offset of the document (every offset across the decoder's buffer refills)
	RunePad int `json:"rune_pad,omitempty"`
	// Single: only column 0 of Frame is kept (a frame with exactly one column)
	Single bool `json:"single,omitempty"`
}

func hexOf(s string) string { return fmt.Sprintf("%x", s) }

func unhex(h string) string {
	b := make([]byte, len(h)/2)
	for i := range b {
		v, _ := strconv.ParseUint(h[2*i:2*i+2], 16, 8)
		b[i] = byte(v)
	}
	return string(b)
}

// decoded is what a JSON decoder must yield for string s: each invalid byte reads as U+FFFD.
func decodedString(s string) string {
	var sb strings.Builder
	for i := 0; i < len(s); {
		r, w := utf8.DecodeRuneInString(s[i:])
		if r == utf8.RuneError && w == 1 {
			sb.WriteRune(utf8.RuneError)
			i++
			continue
		}
		sb.WriteString(s[i : i+w])
		i += w
	}
	return sb.String()
}

func (c jsonCase) frame() model.Frame {
	if c.Rows > 0 {
		id := model.Col{Name: "id", Kind: model.Int}
		sc := model.Col{Name: "s", Kind: model.String}
		for r := 0; r < c.Rows; r++ {
			id.Cells = append(id.Cells, model.I(r))
			sc.Cells = append(sc.Cells, model.S(strings.Repeat("x", c.Pad+r%3)))
		}
		return model.Frame{N: c.Rows, Cols: []model.Col{id, sc}}
	}
	if c.RunePad > 0 {
		r := unhex(c.StrHex[0])
		return model.Frame{N: 2, Cols: []model.Col{
			{Name: "s", Kind: model.String, Cells: []model.Cell{model.S(strings.Repeat("x", c.RunePad) + r + "t"), model.S(r + "u")}},
			{Name: "id", Kind: model.Int, Cells: []model.Cell{model.I(0), model.I(1)}}}}
	}
	f := c.Frame.Clone()
	f.Fix()
	if c.Single {
		f.Cols = f.Cols[:1]
	}
	if c.NameHex != "" {
		f.Cols[0].Name = unhex(c.NameHex)
	}
	if c.StrHex != nil {
		for i, h := range c.StrHex {
			if h != "null" {
				f.Cols[0].Cells[i] = model.S(unhex(h))
			} else {
				f.Cols[0].Cells[i] = model.Null()
			}
		}
	}
	return f
}

func runJSONCase(c jsonCase) *core.Failure {
	f := c.frame()
	qf := model.BuildShape(f, c.Shape)
	if c.ConstEnum {
		v := unhex(c.StrHex[0])
		f = model.Frame{N: 2, Cols: []model.Col{
			{Name: "s", Kind: model.Enum, Cells: []model.Cell{model.S(v), model.S(v)}},
			{Name: "id", Kind: model.Int, Cells: []model.Cell{model.I(0), model.I(1)}}}}
		qf = qframe.New(map[string]interface{}{"s": qframe.ConstString{Val: &v, Count: 2}, "id": []int{0, 1}},
			newqf.Enums(map[string][]string{"s": nil}), newqf.ColumnOrder("s", "id"))
	}
	in := model.ObserveAs(qf, f)
	if in.Err {
		return core.Failf("could not build frame: %s", in.ErrText)
	}
	in.AdoptMeta(f)
	if c.AggAs != "" {
		qf = qf.GroupBy(groupby.Columns("id")).Aggregate(qframe.Aggregation{Fn: "count", Column: f.Cols[0].Name, As: c.AggAs}, qframe.Aggregation{Fn: "max", Column: "id", As: "m"}).Sort(qframe.Order{Column: "id"})
		in = model.Observe(qf)
		if in.Err {
			return core.Failf("could not aggregate: %s", in.ErrText)
		}
		if len(in.Cols) != 3 || in.Cols[1].Name != c.AggAs || in.Cols[2].Name != "m" {
			return core.Failf("aggregated frame has columns %v, want [id %s m]", in.Names(), c.AggAs)
		}
	}
	var buf bytes.Buffer
	if err := qf.ToJSON(&buf); err != nil {
		return core.Failf("ToJSON error: %v", err)
	}
	out := buf.Bytes()
	desc := fmt.Sprintf("frame %s shape %s\n output: %q", in, model.ShapeNames[c.Shape], out)
	// expected frame as a JSON decoder sees it (invalid bytes -> U+FFFD)
	dec := in.Clone()
	for ci := range dec.Cols {
		dec.Cols[ci].Name = decodedString(dec.Cols[ci].Name)
		if dec.Cols[ci].Kind == model.String || dec.Cols[ci].Kind == model.Enum {
			for ri := range dec.Cols[ci].Cells {
				if !dec.Cols[ci].Cells[ri].Null {
					dec.Cols[ci].Cells[ri] = model.S(decodedString(dec.Cols[ci].Cells[ri].S))
				}
			}
		}
	}
	if fail := checkJSONTokens(out, dec); fail != nil {
		fail.Msg += "\n " + desc
		return fail
	}
	// ReadJSON inverts (frames with rows, valid UTF-8 only, NaN-free floats)
	if in.N == 0 || len(in.Cols) == 0 {
		return nil
	}
	want := model.Frame{N: in.N}
	enums := map[string][]string{}
	names := map[string]bool{}
	for _, col := range in.Cols {
		if !utf8.ValidString(col.Name) || names[col.Name] {
			return nil
		}
		names[col.Name] = true
		wc := model.Col{Name: col.Name, Kind: col.Kind, EnumVals: col.EnumVals}
		for _, cell := range col.Cells {
			switch col.Kind {
			case model.Int:
				wc.Kind = model.Float
				wc.Cells = append(wc.Cells, model.F(float64(cell.I)))
			case model.Float:
				if math.IsNaN(cell.F) {
					return nil
				}
				wc.Cells = append(wc.Cells, cell)
			case model.String, model.Enum:
				if !cell.Null && !utf8.ValidString(cell.S) {
					return nil
				}
				wc.Cells = append(wc.Cells, cell)
			default:
				wc.Cells = append(wc.Cells, cell)
			}
		}
		if col.Kind == model.Enum {
			enums[col.Name] = col.EnumVals
		}
		// a string/enum column whose first cell is null is still a string column for ReadJSON
		want.Cols = append(want.Cols, wc)
	}
	opts := []newqf.ConfigFunc{newqf.ColumnOrder(in.Names()...)}
	if len(enums) > 0 {
		opts = append(opts, newqf.Enums(enums))
	}
	// a read that FAILS (other keys, then a record of the wrong type) directly before: nothing of it may show up in the next read
	if bad := qframe.ReadJSON(strings.NewReader(`[{"LEFTOVER":1.5,"OTHER":"x"}, 7]`)); bad.Err == nil {
		return core.Failf("ReadJSON accepted a document whose second record is a number")
	}
	firstRead := qframe.ReadJSON(bytes.NewReader(out), opts...)
	back := model.Observe(firstRead)
	if d := model.Diff(want, back); d != "" {
		return core.Failf("ReadJSON(ToJSON(frame)) differs: %s\n %s\n want: %s\n  got: %s", d, desc, want, back)
	}
	// two write/read cycles through ONE bytes.Buffer that already owns memory (it held other text before): ToJSON
	// appends exactly its document, ReadJSON consumes what it reads, the second cycle is as good as the first
	{
		bb := bytes.NewBuffer(make([]byte, 0, 3*len(out)+64))
		bb.WriteString(strings.Repeat("#", len(out)+16))
		bb.Reset()
		for cycle := 1; cycle <= 2; cycle++ {
			if err := qf.ToJSON(bb); err != nil {
				return core.Failf("ToJSON into a reused bytes.Buffer (cycle %d): %v", cycle, err)
			}
			if !bytes.Equal(bb.Bytes(), out) {
				return core.Failf("ToJSON into a reused bytes.Buffer (cycle %d) wrote %q, into a fresh buffer %q", cycle, headStr(bb.String(), 300), headStr(string(out), 300))
			}
			again := model.Observe(qframe.ReadJSON(bb, opts...))
			if d := model.Diff(want, again); d != "" {
				return core.Failf("ReadJSON from the bytes.Buffer ToJSON wrote into (cycle %d) differs: %s\n %s", cycle, d, desc)
			}
			if bytes.Contains(bb.Bytes(), []byte("[")) {
				return core.Failf("ReadJSON left the document (or part of it) unread in the bytes.Buffer it read from (cycle %d): %q", cycle, headStr(bb.String(), 200))
			}
		}
	}
	// a second read (the records in reverse order): same rows reversed, and the frame returned by the first read,
	// a value of its own, is unchanged
	if in.N <= 64 {
		var recs []json.RawMessage
		if err := json.Unmarshal(out, &recs); err == nil && len(recs) == in.N {
			for i, j := 0, len(recs)-1; i < j; i, j = i+1, j-1 {
				recs[i], recs[j] = recs[j], recs[i]
			}
			rev, _ := json.Marshal(recs)
			second := model.Observe(qframe.ReadJSON(bytes.NewReader(rev), opts...))
			revIx := make([]int, in.N)
			for i := range revIx {
				revIx[i] = in.N - 1 - i
			}
			if d := model.Diff(want.Rows(revIx), second); d != "" {
				return core.Failf("ReadJSON of the same records in reverse order differs from the reversed frame: %s\n %s", d, desc)
			}
			if now := model.Observe(firstRead); now.String() != back.String() {
				return core.Failf("the frame returned by the first ReadJSON changed when a second document was read:\n before: %s\n  after: %s\n %s", back, now, desc)
			}
		}
	}
	return nil
}

func c14Floats(quick bool) []float64 {
	var out []float64
	step := uint64(8)
	if !quick {
		step = 1
	}
	for exp := uint64(0); exp <= 2046; exp += step {
		for _, m := range []uint64{0, 1, 0x5555555555555, 1<<52 - 1} {
			out = append(out, math.Float64frombits(exp<<52|m), math.Float64frombits(1<<63|exp<<52|m))
		}
	}
	for v := 0; v <= 300; v++ {
		out = append(out, float64(v), float64(v)+0.5, float64(v)/10, -float64(v)*1e17)
	}
	for k := -323; k <= 308; k += 3 {
		f, _ := strconv.ParseFloat("1e"+strconv.Itoa(k), 64)
		out = append(out, f, math.Nextafter(f, 0), math.Nextafter(f, math.Inf(1)))
	}
	return out
}

func c14Run(ctx *core.Ctx) {
	exec := func(c jsonCase, outcome string) {
		ctx.Exec(c, func() *core.Failure { return runJSONCase(c) })
		ctx.Outcome(outcome)
		ctx.Nontrivial(fmt.Sprintf("%s|%d|%s|%v|%d|%v|%d|%d|%v|%s", c.Frame.String(), c.Shape, c.NameHex, c.StrHex, c.RunePad, c.Single, c.Rows, c.Pad, c.ConstEnum, c.AggAs))
		if ctx.WantSample() && ctx.Index()%1201 == 11 {
			ctx.Sample(c)
		}
	}
	idCol := func(n int) model.Col {
		c := model.Col{Name: "id", Kind: model.Int}
		for i := 0; i < n; i++ {
			c.Cells = append(c.Cells, model.I(i))
		}
		return c
	}
	strFrame := func(kind model.Kind, n int) model.Frame {
		c := model.Col{Name: "s", Kind: kind, Cells: make([]model.Cell, n)}
		for i := range c.Cells {
			c.Cells[i] = model.S("?")
		}
		return model.Frame{N: n, Cols: []model.Col{c, idCol(n)}}
	}
	// byte strings: every single byte, every pair over the risk alphabet, selected multi-byte sequences
	var byteStrings []string
	for b := 0; b < 256; b++ {
		byteStrings = append(byteStrings, string([]byte{byte(b)}))
	}
	risk := []byte{'"', '\\', '/', 0x00, 0x1f, 0x7f, 0x80, 0xc2, 0xe2, 0xff, 'a', '\n'}
	for _, x := range risk {
		for _, y := range risk {
			byteStrings = append(byteStrings, string([]byte{x, y}))
		}
	}
	byteStrings = append(byteStrings, "\u2028", "\u2029", "a\u2028b", "\u2027", "\u202a", "\u00e9", "\u20ac", "\U0001F600", "\xe2\x80", "\xe2\x80\xa8\xe2", "\xf0\x9f\x98", "\xc0\xaf", "\xed\xa0\x80", "\xef\xbf\xbd", "a\xffb\xfe", "\\u0041", "\"\\\"", "\t\r\n\b\f", "</script>", "\u007f\u0080\u0081")
	for _, x := range risk {
		for _, y := range risk {
			for _, z := range risk {
				byteStrings = append(byteStrings, string([]byte{x, y, z}))
				if !ctx.Quick() {
					for _, w := range risk {
						byteStrings = append(byteStrings, string([]byte{x, y, z, w}))
						for _, v := range risk[:6] {
							byteStrings = append(byteStrings, string([]byte{x, y, z, w, v}))
						}
					}
				}
			}
		}
	}
	// values: string and enum column; cells: the string, null, the string again (3 rows)
	for _, kind := range []model.Kind{model.String, model.Enum} {
		for _, s := range byteStrings {
			for shape := 0; shape < model.NShapes; shape++ {
				if !ctx.Mine() {
					continue
				}
				f := strFrame(kind, 3)
				exec(jsonCase{Frame: f, Shape: shape, StrHex: []string{hexOf(s), "null", hexOf(s + "x")}}, "strings/"+string(kind))
			}
		}
	}
	// longer strings (a word-at-a-time scanner and its scalar tail): every byte value at every position of an
	// 18-byte string of plain characters, and pairs of special bytes in different 8-byte blocks
	var longStrings []string
	for b := 0; b < 256; b++ {
		for p := 0; p < 18; p++ {
			longStrings = append(longStrings, strings.Repeat("a", p)+string([]byte{byte(b)})+strings.Repeat("a", 17-p))
		}
	}
	for _, x := range risk {
		for _, y := range risk {
			longStrings = append(longStrings, "aaa"+string([]byte{x})+"aaaaaaaa"+string([]byte{y})+"aaaaa", string([]byte{x})+strings.Repeat("b", 14)+string([]byte{y}))
		}
	}
	for _, kind := range []model.Kind{model.String, model.Enum} {
		for _, s := range longStrings {
			if !ctx.Mine() {
				continue
			}
			f := strFrame(kind, 3)
			exec(jsonCase{Frame: f, Shape: int(ctx.Index() % int64(model.NShapes)), StrHex: []string{hexOf(s), "null", hexOf("x" + s)}}, "long-strings/"+string(kind))
		}
	}
	for _, s := range longStrings {
		if !checkNameOK(s) || !ctx.Mine() {
			continue
		}
		f := model.Frame{N: 2, Cols: []model.Col{{Name: "n", Kind: model.Int, Cells: []model.Cell{model.I(1), model.I(2)}}, {Name: "z", Kind: model.Bool, Cells: []model.Cell{model.B(true), model.B(false)}}}}
		exec(jsonCase{Frame: f, Shape: 0, NameHex: hexOf(s)}, "long-names")
	}
	// a multi-byte character (and the escapes) starting at every document offset 8..8400: across the reader's
	// and the decoder's buffer boundaries (512, 1536, 3584, 4096, 7680, 8192)
	for pad := 1; pad <= 8400; pad++ {
		for _, r := range []string{"\ufeff", "\u00e9", "\u2028", "\"", "\U0001F600"} {
			if ctx.Mine() {
				exec(jsonCase{RunePad: pad, StrHex: []string{hexOf(r)}, Shape: pad % model.NShapes}, "rune-at-every-offset")
			}
		}
	}
	// frames with exactly one column, names with separators in them (and the same names in a two-column frame)
	for _, name := range []string{"x,y", "a, b", ",", "x,", ",x", "a;b", "a b", " a", "a|b", "a\tb", "a:b", "a.b", "[a]", "{a}", "a=b", "x"} {
		for _, kind := range []model.Kind{model.String, model.Int, model.Bool, model.Float, model.Enum} {
			for _, single := range []bool{true, false} {
				if !ctx.Mine() {
					continue
				}
				col := model.Col{Name: "v", Kind: kind}
				switch kind {
				case model.String:
					col.Cells = []model.Cell{model.S("p"), model.Null()}
				case model.Enum:
					col.Cells = []model.Cell{model.S("p"), model.Null()}
					col.EnumVals = []string{"q", "p"}
				case model.Int:
					col.Cells = []model.Cell{model.I(4), model.I(-5)}
				case model.Float:
					col.Cells = []model.Cell{model.F(0.5), model.F(-2)}
				default:
					col.Cells = []model.Cell{model.B(true), model.B(false)}
				}
				f := model.Frame{N: 2, Cols: []model.Col{col, idCol(2)}}
				exec(jsonCase{Frame: f, Shape: int(ctx.Index() % int64(model.NShapes)), NameHex: hexOf(name), Single: single}, "one-column-and-separator-names")
			}
		}
	}
	// frames whose columns got their names from an aggregation (As)
	for _, as := range []string{"total", "n\"q", "s", "\u00e4\\", "m2"} {
		for _, kind := range []model.Kind{model.String, model.Enum} {
			for shape := 0; shape < model.NShapes; shape++ {
				if ctx.Mine() {
					exec(jsonCase{Frame: strFrame(kind, 3), Shape: shape, StrHex: []string{hexOf("x"), "null", hexOf("y")}, AggAs: as}, "aggregated-as")
				}
			}
		}
	}
	// enum columns made from a constant (ConstString + Enums): the value enters the enum by another door
	constVals := append([]string{}, byteStrings...)
	for i := 0; i < 256*18; i += 7 {
		constVals = append(constVals, longStrings[i])
	}
	for _, s := range constVals {
		if ctx.Mine() {
			exec(jsonCase{Frame: strFrame(model.Enum, 2), StrHex: []string{hexOf(s)}, ConstEnum: true}, "const-enum")
		}
	}
	// names
	for _, s := range byteStrings {
		if !checkNameOK(s) || s == "z" {
			continue
		}
		for _, shape := range []int{0, 1} {
			if !ctx.Mine() {
				continue
			}
			f := model.Frame{N: 2, Cols: []model.Col{{Name: "n", Kind: model.Int, Cells: []model.Cell{model.I(1), model.I(2)}}, {Name: "z", Kind: model.Bool, Cells: []model.Cell{model.B(true), model.B(false)}}}}
			exec(jsonCase{Frame: f, Shape: shape, NameHex: hexOf(s)}, "names")
		}
	}
	// floats, ints, bools; zero rows; zero columns
	floats := c14Floats(false)
	for i := 0; i < len(floats); i += 3 {
		if !ctx.Mine() {
			continue
		}
		c := model.Col{Name: "f", Kind: model.Float}
		for j := i; j < i+3 && j < len(floats); j++ {
			c.Cells = append(c.Cells, model.F(floats[j]))
		}
		f := model.Frame{N: len(c.Cells), Cols: []model.Col{c, idCol(len(c.Cells))}}
		exec(jsonCase{Frame: f, Shape: int(ctx.Index() % int64(model.NShapes))}, "floats")
	}
	// output-size sweep: every row count 1..700 (records of ~20 bytes: the output crosses 4 KiB and
	// 8 KiB at every alignment) and, at 150 and 300 rows, every padding 0..60
	for rows := 1; rows <= 700; rows++ {
		if ctx.Mine() {
			exec(jsonCase{Rows: rows, Pad: 1, Shape: rows % model.NShapes}, "size-sweep")
		}
	}
	for _, rows := range []int{150, 300} {
		for pad := 0; pad <= 60; pad++ {
			if ctx.Mine() {
				exec(jsonCase{Rows: rows, Pad: pad}, "size-sweep")
			}
		}
	}
	mixed := []model.Frame{
		{N: 3, Cols: []model.Col{{Name: "f", Kind: model.Float, Cells: []model.Cell{model.NaN(), model.F(1), model.NaN()}}, {Name: "i", Kind: model.Int, Cells: []model.Cell{model.I(math.MaxInt64), model.I(math.MinInt64), model.I(0)}}}},
		{N: 2, Cols: []model.Col{{Name: "b", Kind: model.Bool, Cells: []model.Cell{model.B(true), model.B(false)}}, {Name: "s", Kind: model.String, Cells: []model.Cell{model.Null(), model.S("")}},
			{Name: "e", Kind: model.Enum, EnumVals: []string{"q", "p"}, Cells: []model.Cell{model.S("p"), model.Null()}}, {Name: "f", Kind: model.Float, Cells: []model.Cell{model.F(-0.0), model.F(math.Copysign(0, -1))}}}},
		{N: 0, Cols: []model.Col{{Name: "a", Kind: model.Int}, {Name: "s", Kind: model.String}}},
		{N: 0},
		{N: 1, Cols: []model.Col{{Name: "only", Kind: model.String, Cells: []model.Cell{model.Null()}}}},
		{N: 2, Cols: []model.Col{{Name: "i", Kind: model.Int, Cells: []model.Cell{model.I(1 << 53), model.I(-(1 << 53))}}}},
	}
	for _, f := range mixed {
		for shape := 0; shape < model.NShapes; shape++ {
			if len(f.Cols) == 0 && shape > 0 {
				continue // a frame without columns has no rows to lay out differently
			}
			if ctx.Mine() {
				exec(jsonCase{Frame: f, Shape: shape}, "mixed")
			}
		}
	}
}

func init() {
	core.Register(&core.Check{
		ID:    "C14",
		Level: "model_checking",
		Rule: "case = (frame, index shape). String and enum cells and column names over EVERY single byte 0x00-0xFF as a one-byte string, every 2- and 3-byte (thorough: 4-byte) combination of a 12-byte risk alphabet (quote, backslash, slash, NUL, 0x1f, 0x7f, 0x80, 0xc2, 0xe2, 0xff, a, LF), every byte value at every position of an 18-byte string (cells and names), U+2028/2029 and neighbours, 2-4 byte runes, truncated/overlong/surrogate sequences; floats from structured families (every exponent x 4 mantissas x signs, small decimals, powers of ten with neighbours) plus NaN; integer extremes; zero rows; zero columns; an output-size sweep (every row count 1..700, paddings 0..60: output sizes across 4 KiB and 8 KiB at every alignment). " +
			"Oracles: json.Valid; token stream = one object per row in row order with keys in column order and values equal to the cells (invalid bytes as U+FFFD, NaN/null as null, floats bit-identical after ParseFloat); ReadJSON(output, ColumnOrder, Enums) reproduces the frame (ints as equal floats) for valid UTF-8 and NaN-free floats. All cases non-trivial; distinct by content.",
		Assumptions: []string{
			"encoding/json's tokenizer is the JSON reference",
			"round trip through ReadJSON asserted only where JSON can carry the value (valid UTF-8, no NaN) and for frames with at least one row",
		},
		Bound: map[string]string{
			"quick":    "1-byte strings, all 2- and 3-byte combinations of the risk alphabet; every exponent",
			"thorough": "adds all 4-byte combinations of the risk alphabet and 5-byte combinations ending in one of its first 6 bytes",
		},
		Run:    c14Run,
		Replay: replayAs(runJSONCase),
	})
}

var _ = json.Valid
