//go:build verif

package verifseam

import (
	"io"

	"github.com/tobgu/qframe/internal/fastcsv"
)

const CSVAvailable = true

// CSVScanner is what the harness uses of the scanner.
type CSVScanner interface {
	Next() bool
	Fields() [][]byte
	Err() error
}

func NewCSVReaderCap(r io.Reader, delim byte, capacity int) CSVScanner {
	rd := fastcsv.VerifNewReaderCap(r, delim, capacity)
	return &rd
}
