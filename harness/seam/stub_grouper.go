//go:build verif

package verifseam

const GrouperAvailable = false

type GroupStats struct{ GroupCount int }

func GroupBy(ix []uint32, cmp []Comparable) ([][]uint32, GroupStats) {
	panic("grouper seam unavailable")
}

func Distinct(ix []uint32, cmp []Comparable) []uint32 { panic("grouper seam unavailable") }
