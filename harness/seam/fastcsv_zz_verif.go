//go:build verif

// Overlay file: compiled into github.com/tobgu/qframe/internal/fastcsv.
package fastcsv

import "io"

// VerifNewReaderCap is NewReader with a caller-chosen initial buffer capacity,
// so that the refill / shift / reallocate paths are reachable with tiny documents.
func VerifNewReaderCap(r io.Reader, delimiter byte, capacity int) Reader {
	rd := NewReader(r, delimiter)
	rd.fields.buffer.data = make([]byte, 0, capacity)
	return rd
}
